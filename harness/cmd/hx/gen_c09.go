package main

import (
	"fmt"
	"strings"

	"github.com/bluenviron/gomavlib/v3/pkg/message"
)

// C09: originated frames — identity, version, checksum, gapless sequence numbers; refusals.
func genC09(r *rngT, n int, tier string) {
	// initialisation refusals: every combination of version {0,1,2}, system id {0,1,255}, component {0,1,9}, key or not
	key := r.bytes(32)
	for _, v := range []int{0, 1, 2, 3} {
		for _, sys := range []int{0, 1, 255} {
			for _, comp := range []int{0, 1, 9} {
				for _, k := range []string{"-", hx(key)} {
					execOp(fmt.Sprintf("swinit %d %d %d %s", v, sys, comp, k))
				}
			}
		}
	}
	defineDialect("common")
	defineDialect("user")
	hist := 40
	rounds := n / 20
	if tier == "thorough" {
		hist = 700
	}
	if rounds < 4 {
		rounds = 4
	}
	for i := 0; i < rounds; i++ {
		dn := []string{"common", "user"}[r.Intn(2)]
		ver := 1 + r.Intn(2)
		k := "-"
		if ver == 2 && r.bool() {
			k = hx(key)
		}
		l := hist/2 + r.Intn(hist)
		if i == 0 {
			l = 600 // beyond the 256 wrap, twice
		}
		var its []string
		for j := 0; j < l; j++ {
			var m message.Message
			switch r.Intn(10) {
			case 0: // raw, unknown id: refused
				m = &message.MessageRaw{ID: 99999, Payload: []byte{1}}
				stat("c09-refused-unknown")
			case 1: // raw, known id
				pm := pickMsg(r, dn)
				m = &message.MessageRaw{ID: pm.GetID(), Payload: r.payload(1 + r.Intn(20))}
				stat("c09-raw")
			default:
				m = randValue(r, pickMsg(r, dn))
				if ver == 1 && m.GetID() > 255 {
					stat("c09-refused-v1id")
				}
			}
			its = append(its, fmt.Sprintf("%s@%d", encMsg(m), int64(j)*1000000))
		}
		execOp(fmt.Sprintf("swrite %s %d %d %d %d %s %s", dn, ver, 1+r.Intn(255), r.Intn(3)*r.Intn(128), r.Intn(256), k, strings.Join(its, ";")))
		stat("c09-history")
	}
	// the same, originated by a node (one channel): only what reaches the wire is observable
	for i := 0; i < rounds; i++ {
		dn := []string{"common", "user"}[r.Intn(2)]
		ver := 1 + r.Intn(2)
		k := "-"
		if ver == 2 && r.bool() {
			k = hx(key)
		}
		var its []string
		l := 5 + r.Intn(40)
		for j := 0; j < l; j++ {
			var m message.Message
			switch {
			case j == l-1: // the last one must reach the wire
				pm := pickMsg(r, dn)
				for pm.GetID() > 255 {
					pm = pickMsg(r, dn)
				}
				m = randValue(r, pm)
			case r.Intn(8) == 0:
				m = &message.MessageRaw{ID: 99999, Payload: []byte{1}}
			case r.Intn(8) == 0:
				pm := pickMsg(r, dn)
				m = &message.MessageRaw{ID: pm.GetID(), Payload: r.payload(1 + r.Intn(20))}
			default:
				m = randValue(r, pickMsg(r, dn))
			}
			its = append(its, fmt.Sprintf("%s@5000000", encMsg(m)))
		}
		comp := r.Intn(3) * r.Intn(128)
		execOp(fmt.Sprintf("nwrite %s %d %d %d %d %s %s", dn, ver, 2+r.Intn(253), comp, r.Intn(256), k, strings.Join(its, ";")))
		stat("c09-node-history")
	}
	// the refusals of a NODE's initialisation: the same rule, checked where the node is configured (a missing version, a zero
	// system id, an outgoing key with version 1); an accepted configuration originates one frame
	one := encMsg(&message.MessageRaw{ID: 0, Payload: []byte{1, 2, 3}})
	for _, v := range []int{0, 1, 2} {
		for _, sys := range []int{0, 1, 255} {
			for _, comp := range []int{0, 9} {
				for _, k := range []string{"-", hx(key)} {
					execOp(fmt.Sprintf("nwrite common %d %d %d %d %s %s@5000000", v, sys, comp, r.Intn(256), k, one))
					stat("c09-node-init")
				}
			}
		}
	}
	// no dialect at all
	execOp(fmt.Sprintf("swrite - 2 1 1 0 - %s@0;%s@1", encMsg(&message.MessageRaw{ID: 0, Payload: []byte{1}}), encMsg(&message.MessageRaw{ID: 0, Payload: []byte{1}})))
}
