// Package telemetry (variant A): same package name and type name as fwb/telemetry, different definition.
package telemetry

type MessageStatus struct {
	A uint8
	B uint32
}

func (*MessageStatus) GetID() uint32 { return 1 }
