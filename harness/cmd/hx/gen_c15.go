package main

import (
	"fmt"
	"os"
	"regexp"
	"strings"
)

// C15: data races. This group is meant for the harness binary built with -race: it runs the concurrent node scenarios of
// C10 - C14 (all Write* flavours from several goroutines, event consumption, forwarding, heartbeats, stream requests,
// Close) and, after every scenario, looks at the race detector's log (GORACE=log_path=...). Every new report is emitted
// as a `racecheck` op carrying the report; the spec accepts only "no report".

var raceLog string // path of this process's race log ("" when not running under GORACE log_path)
var raceSeen int

func init() {
	for _, kv := range strings.Fields(os.Getenv("GORACE")) {
		if strings.HasPrefix(kv, "log_path=") {
			raceLog = fmt.Sprintf("%s.%d", strings.TrimPrefix(kv, "log_path="), os.Getpid())
		}
	}
}

var reFrame = regexp.MustCompile(`(?m)^  (\S+)\(\)\s*$`)

// raceReports: the detector's reports in which at least one of the two conflicting accesses is performed by library code
// (first non-runtime frame of the access stack inside gomavlib or pion). A report whose two accesses are both in harness
// code is a defect of the harness, not of the library: it is counted apart (stat "harness-races") and must be fixed here.
func raceReports() []string {
	b, err := os.ReadFile(raceLog)
	if err != nil {
		return nil
	}
	var reps []string
	harness := 0
	for _, r := range strings.Split(string(b), "==================") {
		if !strings.Contains(r, "WARNING: DATA RACE") {
			continue
		}
		lib := false
		for _, sec := range strings.Split(r, "\n\n") {
			first := strings.SplitN(strings.TrimLeft(sec, "\n"), "\n", 2)[0]
			if !(strings.Contains(first, " at 0x") && strings.Contains(first, "by ")) {
				continue // goroutine creation stacks
			}
			for _, m := range reFrame.FindAllStringSubmatch(sec, -1) {
				if strings.HasPrefix(m[1], "runtime.") || strings.HasPrefix(m[1], "sync.") || strings.HasPrefix(m[1], "sync/atomic.") {
					continue
				}
				if strings.Contains(m[1], "github.com/bluenviron/gomavlib/v3") || strings.Contains(m[1], "github.com/pion/") {
					lib = true
				}
				break
			}
		}
		if lib {
			reps = append(reps, r)
		} else {
			harness++
		}
	}
	harnessRaces = harness
	return reps
}

var harnessRaces int

func raceSummary(rep string) string {
	var fr []string
	for _, m := range reFrame.FindAllStringSubmatch(rep, -1) {
		f := m[1]
		if strings.HasPrefix(f, "runtime.") || strings.HasPrefix(f, "main.") {
			continue
		}
		fr = append(fr, f)
		if len(fr) == 6 {
			break
		}
	}
	kind := "race"
	if strings.Contains(rep, "Write at") && strings.Contains(rep, "Previous write at") {
		kind = "write/write"
	} else if strings.Contains(rep, "Read at") || strings.Contains(rep, "Previous read at") {
		kind = "read/write"
	}
	return kind + ":" + strings.Join(fr, "|")
}

// raceAfter is called after every emitted op of a race build.
func raceAfter(op string) {
	if strings.HasPrefix(op, "racecheck ") {
		return
	}
	reps := raceReports()
	if len(reps) > raceSeen {
		newReps := reps[raceSeen:]
		raceSeen = len(reps)
		sc := op
		if len(sc) > 160 {
			sc = sc[:160]
		}
		sc = strings.ReplaceAll(sc, " ", "~")
		// one op per report, so that every report is judged (and matched against the known findings) on its own
		for _, rep := range newReps {
			fmt.Fprintf(out, "racecheck %s 1 %s\tok\n", sc, noteTok(raceSummary(rep)))
			stat("race-reports")
		}
	}
}

func genC15(r *rngT, n int, tier string) {
	if raceLog == "" {
		emit("racecheck no-race-build 1 the_harness_was_not_started_with_GORACE=log_path", "ok")
		return
	}
	before := len(raceReports())
	raceSeen = before
	genC12(newRng(r.Int63()), n, tier)
	genC11(newRng(r.Int63()), n/3+1, tier)
	genC13(newRng(r.Int63()), n/6+1, tier)
	genC10(newRng(r.Int63()), n/3+1, tier)
	genC16(newRng(r.Int63()), n/3+1, tier)
	// stream-request bookkeeping under fire: many channels, the same few senders on all of them, all at once
	defineDialect("common")
	for i := 0; i < n/6+2; i++ {
		var hs []string
		for c := 0; c < 4+r.Intn(3); c++ {
			var as []string
			for j := 0; j < 30; j++ {
				as = append(as, fmt.Sprintf("%d.%d.A", 1+r.Intn(3), 1+r.Intn(2)))
			}
			hs = append(hs, strings.Join(as, ","))
		}
		op := fmt.Sprintf("srcheck 1 common 4 %s %s", strings.Join(hs, ";"), []string{"mem", "tcp"}[r.Intn(2)])
		emit(op, implSrcheck(strings.Split(op, " ")))
		stat("c15-srstress")
	}
	out.Flush()
	emit(fmt.Sprintf("racecheck end %d -", len(raceReports())-raceSeen), "ok")
	stat("op:racecheck")
	stats["harness-races"] = harnessRaces
}
