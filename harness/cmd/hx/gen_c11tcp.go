package main

import (
	"bufio"
	"errors"
	"fmt"
	"io"
	"net"
	"strings"
	"sync"
	"time"

	"github.com/bluenviron/gomavlib/v3"
	"github.com/bluenviron/gomavlib/v3/pkg/dialects/common"
	"github.com/bluenviron/gomavlib/v3/pkg/frame"
	"github.com/bluenviron/gomavlib/v3/pkg/message"
)

// C11 over TCP: ONE server endpoint, k peers = k channels of the same endpoint. Phase 1: the usual fan-out plan. Then one peer
// disconnects (its channel closes and is reported) and phase 2 goes on writing - to all, to the closed channel (ignored), to
// every channel but the closed one (= all), to the others. Each phase is judged by Spec.Fan.fanLegal: phase 2 over the k-1 channels
// that are left, the closed channel being "foreign" by then. Sequence numbers of phase 2 are given relative to what phase 1 put on
// each link (continuity across the phases is checked by that subtraction).

type tcpPeer struct {
	conn  net.Conn
	mu    sync.Mutex
	tags  []string
	nOrig int // originated messages seen so far (they consume sequence numbers)
}

func (p *tcpPeer) run() {
	r := &frame.Reader{ByteReader: bufio.NewReader(p.conn)}
	r.Initialize() //nolint
	for {
		fr, err := r.Read()
		if err != nil {
			if _, ok := err.(frame.ReadError); ok { //nolint
				p.mu.Lock()
				p.tags = append(p.tags, "BAD")
				p.mu.Unlock()
				continue
			}
			return
		}
		p.mu.Lock()
		p.tags = append(p.tags, tagOfFrame(fr))
		p.mu.Unlock()
	}
}

func (p *tcpPeer) snapshot() []string {
	p.mu.Lock()
	defer p.mu.Unlock()
	return append([]string(nil), p.tags...)
}

// tagOfFrame: the same tags as decodeWrite (kind, goroutine, item, sequence number, system id)
func tagOfFrame(fr frame.Frame) string {
	raw, ok := fr.GetMessage().(*message.MessageRaw)
	if !ok {
		return "BAD"
	}
	switch raw.ID {
	case 2:
		p := append(append([]byte(nil), raw.Payload...), make([]byte, 12)...)
		if fr.GetComponentID() == 7 { // a forwarded frame that carried a decoded message (kind 'd'); validity is judged on the in-memory transports
			return fmt.Sprintf("f%d.%d:%d:%d", p[4], int(p[0])|int(p[1])<<8, fr.GetSequenceNumber(), fr.GetSystemID())
		}
		return fmt.Sprintf("m%d.%d:%d:%d", p[4], int(p[0])|int(p[1])<<8, fr.GetSequenceNumber(), fr.GetSystemID())
	case 1:
		p := raw.Payload
		if len(p) < 3 {
			return "BAD"
		}
		return fmt.Sprintf("f%d.%d:%d:%d", p[0], int(p[1])|int(p[2])<<8, fr.GetSequenceNumber(), fr.GetSystemID())
	}
	return "BAD"
}

// decodedFrame: what a router holds after reading a SYSTEM_TIME frame from another link - a frame of version 1 (even item numbers)
// or 2 with a DECODED message and the checksum it arrived with. TimeBootMs is zero: the version-2 payload is shorter than the
// version-1 payload of the same message.
func decodedFrame(g, i int) frame.Frame {
	ver := frame.V2
	if i%2 == 0 {
		ver = frame.V1
	}
	var buf strings.Builder
	w := &frame.Writer{ByteWriter: &sbWriter{&buf}, DialectRW: getDialectRW("common"), OutVersion: ver, OutSystemID: byte(g + 1), OutComponentID: 7}
	if err := w.Initialize(); err != nil {
		panic(err)
	}
	if err := w.WriteMessage(&common.MessageSystemTime{TimeUnixUsec: uint64(i) | uint64(g)<<32}); err != nil {
		panic(err)
	}
	r := &frame.Reader{ByteReader: strings.NewReader(buf.String()), DialectRW: getDialectRW("common")}
	r.Initialize() //nolint
	fr, err := r.Read()
	if err != nil {
		panic(err)
	}
	// the item number as sequence number, like the other forwarded frames; the checksum covers it
	switch f := fr.(type) {
	case *frame.V1Frame:
		f.SequenceNumber = byte(i)
		raw := &frame.V1Frame{SequenceNumber: f.SequenceNumber, SystemID: f.SystemID, ComponentID: f.ComponentID,
			Message: getDialectRW("common").GetMessage(2).Write(f.Message, false)}
		f.Checksum = raw.GenerateChecksum(getDialectRW("common").GetMessage(2).CRCExtra())
	case *frame.V2Frame:
		f.SequenceNumber = byte(i)
		raw := &frame.V2Frame{SequenceNumber: f.SequenceNumber, SystemID: f.SystemID, ComponentID: f.ComponentID,
			Message: getDialectRW("common").GetMessage(2).Write(f.Message, true)}
		f.Checksum = raw.GenerateChecksum(getDialectRW("common").GetMessage(2).CRCExtra())
	}
	return fr
}

var reusedMsg [64]common.MessageSystemTime

// execFanOp performs item i of goroutine g.
func execFanOp(n *gomavlib.Node, g, i int, o fanOp, target *gomavlib.Channel) {
	if o.kind == 'm' {
		var m message.Message = &common.MessageSystemTime{TimeUnixUsec: uint64(i) | uint64(g)<<32}
		if g%2 == 1 {
			// every other goroutine keeps ONE message struct and fills it in again for each call (what was submitted is the
			// value at the time of the call)
			st := &reusedMsg[g%len(reusedMsg)]
			st.TimeUnixUsec = uint64(i) | uint64(g)<<32
			m = st
		}
		if o.bad {
			m = &message.MessageRaw{ID: 99999, Payload: []byte{1}}
		}
		switch o.target {
		case 'a':
			n.WriteMessageAll(m) //nolint
		case 't':
			n.WriteMessageTo(target, m) //nolint
		case 'x':
			n.WriteMessageExcept(target, m) //nolint
		}
		return
	}
	var fr frame.Frame = &frame.V2Frame{SequenceNumber: byte(i), SystemID: byte(g + 1), ComponentID: 7,
		Message: &message.MessageRaw{ID: 1, Payload: []byte{byte(g), byte(i), byte(i >> 8)}}}
	if o.kind == 'd' {
		fr = decodedFrame(g, i)
	}
	switch o.target {
	case 'a':
		n.WriteFrameAll(fr) //nolint
	case 't':
		n.WriteFrameTo(target, fr) //nolint
	case 'x':
		n.WriteFrameExcept(target, fr) //nolint
	}
}

func expectCounts(plan [][]fanOp, k int) []int {
	exp := make([]int, k)
	for _, ops := range plan {
		for _, o := range ops {
			if o.bad {
				continue
			}
			for c := 0; c < k; c++ {
				switch o.target {
				case 'a':
					exp[c]++
				case 't':
					if o.ch == c {
						exp[c]++
					}
				case 'x':
					if o.ch != c {
						exp[c]++
					}
				}
			}
		}
	}
	return exp
}

// runFanTCP returns the observations of the two phases (phase 2: the channels that are left, in order) and a note.
func runFanTCP(k int, plan1, plan2 [][]fanOp, victim int) (obs1, obs2 []string, note string) {
	port := freePort(false)
	n := &gomavlib.Node{Endpoints: []gomavlib.EndpointConf{gomavlib.EndpointTCPServer{Address: fmt.Sprintf("127.0.0.1:%d", port)}},
		Dialect: common.Dialect, OutVersion: gomavlib.V2, OutSystemID: 9, HeartbeatDisable: true}
	if err := n.Initialize(); err != nil {
		return nil, nil, "init-err"
	}
	var mu sync.Mutex
	var chans []*gomavlib.Channel
	opens := make(chan *gomavlib.Channel, 16)
	closes := make(chan *gomavlib.Channel, 16)
	consDone := make(chan struct{})
	go func() {
		defer close(consDone)
		for e := range n.Events() {
			switch ev := e.(type) {
			case *gomavlib.EventChannelOpen:
				opens <- ev.Channel
			case *gomavlib.EventChannelClose:
				closes <- ev.Channel
			}
		}
	}()
	peers := make([]*tcpPeer, k)
	for i := 0; i < k; i++ {
		c, err := net.Dial("tcp4", fmt.Sprintf("127.0.0.1:%d", port))
		if err != nil {
			n.Close()
			return nil, nil, "dial-failed"
		}
		// the server only notices a peer when it has something to read or accept returns: the accept is immediate for TCP
		peers[i] = &tcpPeer{conn: c}
		go peers[i].run()
		select {
		case ch := <-opens:
			mu.Lock()
			chans = append(chans, ch)
			mu.Unlock()
		case <-time.After(5 * time.Second):
			n.Close()
			return nil, nil, "channel-not-open"
		}
	}
	chanOf := func(i int) *gomavlib.Channel {
		mu.Lock()
		defer mu.Unlock()
		if i < 0 || i >= len(chans) {
			return nil
		}
		return chans[i]
	}
	// a foreign channel
	fconn := newMemConn(nil)
	fn := &gomavlib.Node{Endpoints: []gomavlib.EndpointConf{gomavlib.EndpointCustom{ReadWriteCloser: fconn}}, Dialect: common.Dialect,
		OutVersion: gomavlib.V2, OutSystemID: 8, HeartbeatDisable: true}
	fn.Initialize() //nolint
	var foreign *gomavlib.Channel
	for e := range fn.Events() {
		if o, ok := e.(*gomavlib.EventChannelOpen); ok {
			foreign = o.Channel
			break
		}
	}
	runPlan := func(plan [][]fanOp, offset []int) bool {
		var wg sync.WaitGroup
		for g, ops := range plan {
			wg.Add(1)
			go func(g int, ops []fanOp) {
				defer wg.Done()
				for i, o := range ops {
					var target *gomavlib.Channel
					if o.target != 'a' {
						if o.ch < 0 {
							target = foreign
						} else {
							target = chanOf(o.ch)
						}
					}
					execFanOp(n, g, offset[g]+i, o, target)
				}
			}(g, ops)
		}
		done := make(chan struct{})
		go func() { wg.Wait(); close(done) }()
		select {
		case <-done:
			return true
		case <-time.After(10 * time.Second):
			return false
		}
	}
	waitCounts := func(exp []int, base []int, skip int) {
		dl := time.Now().Add(8 * time.Second)
		for c := range peers {
			if c == skip {
				continue
			}
			for len(peers[c].snapshot())-base[c] < exp[c] && time.Now().Before(dl) {
				time.Sleep(200 * time.Microsecond)
			}
		}
		time.Sleep(30 * time.Millisecond) // anything in excess would arrive now
	}
	zero := make([]int, len(plan1))
	if !runPlan(plan1, zero) {
		note += "writers-stalled"
	}
	base0 := make([]int, k)
	waitCounts(expectCounts(plan1, k), base0, -1)
	base := make([]int, k)
	orig := make([]int, k)
	for c := range peers {
		tags := peers[c].snapshot()
		obs1 = append(obs1, strings.Join(tags, ","))
		base[c] = len(tags)
		for _, t := range tags {
			if strings.HasPrefix(t, "m") {
				orig[c]++
			}
		}
	}
	// the victim leaves
	peers[victim].conn.Close()
	select {
	case ch := <-closes:
		if ch != chanOf(victim) {
			note += "wrong-channel-closed"
		}
	case <-time.After(5 * time.Second):
		note += "close-not-reported"
	}
	// phase 2: item numbers go on where phase 1 stopped (per goroutine), targets still name the ORIGINAL channel indexes
	off := make([]int, len(plan2))
	for g := range plan2 {
		if g < len(plan1) {
			off[g] = len(plan1[g])
		}
	}
	if !runPlan(plan2, off) {
		note += "writers-stalled-2"
	}
	exp2 := expectCounts(plan2, k)
	waitCounts(exp2, base, victim)
	for c := range peers {
		if c == victim {
			continue
		}
		tags := peers[c].snapshot()[base[c]:]
		// sequence numbers relative to what phase 1 put on this link; item numbers relative to phase 1 of the goroutine
		var rel []string
		for _, t := range tags {
			rel = append(rel, relTag(t, orig[c], off))
		}
		obs2 = append(obs2, strings.Join(rel, ","))
	}
	closed := make(chan struct{})
	go func() { n.Close(); close(closed) }()
	select {
	case <-closed:
	case <-time.After(10 * time.Second):
		note += "close-timeout"
	}
	if len(fconn.snapshotWrites()) > 0 {
		note += "foreign-node-received-writes"
	}
	fn.Close()
	<-consDone
	for _, p := range peers {
		p.conn.Close()
	}
	return obs1, obs2, note
}

// relTag rewrites "m<g>.<i>:<seq>:<sys>" / "f<g>.<i>:<seq>:<sys>" with i and seq relative to the start of phase 2.
func relTag(t string, origBefore int, off []int) string {
	if t == "BAD" {
		return t
	}
	var kind byte
	var g, i, seq, sys int
	if _, err := fmt.Sscanf(t[1:], "%d.%d:%d:%d", &g, &i, &seq, &sys); err != nil {
		return "BAD"
	}
	kind = t[0]
	o := 0
	if g < len(off) {
		o = off[g]
	}
	if kind == 'm' {
		seq = ((seq-origBefore)%256 + 256) % 256
		return fmt.Sprintf("m%d.%d:%d:%d", g, i-o, seq, sys)
	}
	// a forwarded frame carries its own sequence number = the item number (mod 256): keep it consistent with the shifted item number
	return fmt.Sprintf("f%d.%d:%d:%d", g, i-o, ((seq-o)%256+256)%256, sys)
}

// genC11tcp: scenarios over one TCP server endpoint.
func genC11tcp(r *rngT, n int) {
	for s := 0; s < n; s++ {
		k := 2 + r.Intn(3)
		m := 1 + r.Intn(3)
		victim := r.Intn(k)
		mk := func(kk int) [][]fanOp {
			var plan [][]fanOp
			for g := 0; g < m; g++ {
				var ops []fanOp
				for i := 0; i < 1+r.Intn(20/m); i++ {
					ops = append(ops, randFanOp(r, kk))
				}
				plan = append(plan, ops)
			}
			return plan
		}
		plan1, plan2 := mk(k), mk(k)
		obs1, obs2, note := runFanTCP(k, plan1, plan2, victim)
		impl := "ok"
		if note != "" {
			impl = note
		}
		var o1 []string
		for _, o := range obs1 {
			o1 = append(o1, dash(o))
		}
		emit(fmt.Sprintf("fancheck %d %s %s", k, encPlan2(plan1), strings.Join(o1, ";")), impl)
		stat("op:fancheck")
		stat("c11-tcp-phase1")
		if note != "" {
			break
		}
		// phase 2 over the channels that are left: the closed one has become a channel the node does not have
		var p2 [][]fanOp
		for _, ops := range plan2 {
			var q []fanOp
			for _, o := range ops {
				if o.target != 'a' && o.ch >= 0 {
					switch {
					case o.ch == victim:
						o.ch = -1
					case o.ch > victim:
						o.ch--
					}
				}
				q = append(q, o)
			}
			p2 = append(p2, q)
		}
		var o2 []string
		for _, o := range obs2 {
			o2 = append(o2, dash(o))
		}
		emit(fmt.Sprintf("fancheck %d %s %s", k-1, encPlan2(p2), strings.Join(o2, ";")), "ok")
		stat("op:fancheck")
		stat("c11-tcp-phase2-after-close")
	}
}

// runFanReconn: a one-channel-at-a-time endpoint (serial, through the hook) whose first channel ends (EOF) and is replaced by a
// second one after the reconnect period. The application still holds the FIRST channel: writing to it is writing to a closed
// channel (ignored), excluding it excludes nothing. In the op the closed channel appears as the foreign channel `F`, the new one as
// channel 0.
func runFanReconn(plan [][]fanOp, id int) (obs string, note string) {
	dev := fmt.Sprintf("/dev/c11re%d", id)
	first := newMemConn(nil)
	first.endErr = io.EOF
	second := newMemConn(nil)
	var omu sync.Mutex
	opens := 0
	old := gomavlib.VerifSetSerialOpenFunc(func(d string, _ int) (io.ReadWriteCloser, error) {
		if d != dev {
			return nil, errors.New("no such device")
		}
		omu.Lock()
		defer omu.Unlock()
		opens++
		switch opens {
		case 1:
			return newMemConn(nil), nil // the existence test of Initialize
		case 2:
			return first, nil
		case 3:
			return second, nil
		}
		return nil, errors.New("gone")
	})
	defer gomavlib.VerifSetSerialOpenFunc(old)
	oldp := gomavlib.VerifSetReconnectPeriod(50 * time.Millisecond)
	defer gomavlib.VerifSetReconnectPeriod(oldp)
	n := &gomavlib.Node{Endpoints: []gomavlib.EndpointConf{gomavlib.EndpointSerial{Device: dev, Baud: 57600}},
		Dialect: common.Dialect, OutVersion: gomavlib.V2, OutSystemID: 9, HeartbeatDisable: true}
	if err := n.Initialize(); err != nil {
		return "", "init-err"
	}
	opensCh := make(chan *gomavlib.Channel, 4)
	consDone := make(chan struct{})
	go func() {
		defer close(consDone)
		for e := range n.Events() {
			if o, ok := e.(*gomavlib.EventChannelOpen); ok {
				opensCh <- o.Channel
			}
		}
	}()
	var chOld, chNew *gomavlib.Channel
	select {
	case chOld = <-opensCh:
	case <-time.After(3 * time.Second):
		n.Close()
		return "", "first-channel-not-open"
	}
	select {
	case chNew = <-opensCh:
	case <-time.After(3 * time.Second):
		n.Close()
		return "", "second-channel-not-open"
	}
	var wg sync.WaitGroup
	for g, ops := range plan {
		wg.Add(1)
		go func(g int, ops []fanOp) {
			defer wg.Done()
			for i, o := range ops {
				var target *gomavlib.Channel
				if o.target != 'a' {
					target = chNew
					if o.ch < 0 {
						target = chOld
					}
				}
				execFanOp(n, g, i, o, target)
			}
		}(g, ops)
	}
	wg.Wait()
	exp := expectCounts(plan, 1)[0]
	dl := time.Now().Add(5 * time.Second)
	for len(second.snapshotWrites()) < exp && time.Now().Before(dl) {
		time.Sleep(200 * time.Microsecond)
	}
	time.Sleep(30 * time.Millisecond)
	var items []string
	for _, w := range second.snapshotWrites() {
		items = append(items, decodeWrite(w))
	}
	if len(first.snapshotWrites()) > 0 {
		note += "closed-transport-received-writes"
	}
	closed := make(chan struct{})
	go func() { n.Close(); close(closed) }()
	select {
	case <-closed:
	case <-time.After(10 * time.Second):
		note += "close-timeout"
	}
	<-consDone
	return strings.Join(items, ","), note
}

// genC11reconn: plans over one live channel and one closed channel of the same endpoint.
func genC11reconn(r *rngT, n int) {
	for s := 0; s < n; s++ {
		m := 1 + r.Intn(3)
		var plan [][]fanOp
		for g := 0; g < m; g++ {
			var ops []fanOp
			for i := 0; i < 2+r.Intn(12); i++ {
				o := fanOp{kind: "mfd"[r.Intn(3)], target: "atx"[r.Intn(3)]}
				if o.target != 'a' && r.bool() {
					o.ch = -1 // the channel that has been closed
				}
				ops = append(ops, o)
			}
			plan = append(plan, ops)
		}
		obs, note := runFanReconn(plan, s)
		impl := "ok"
		if note != "" {
			impl = note
		}
		emit(fmt.Sprintf("fancheck 1 %s %s", encPlan2(plan), dash(obs)), impl)
		stat("op:fancheck")
		stat("c11-after-reconnect")
	}
}
