package main

import (
	"errors"
	"fmt"
	"io"
	"net"
	"os"
	"runtime"
	"strings"
	"sync"
	"syscall"
	"time"

	"github.com/bluenviron/gomavlib/v3"
	"github.com/bluenviron/gomavlib/v3/pkg/frame"
)

// memConn: in-memory transport for EndpointCustom.
// Reads deliver the scripted chunks, then block until Close (a custom endpoint is re-provided on EOF, so a finite
// stream must end by blocking). Writes are recorded call by call; a write gate can block or fail the k-th call.
type memConn struct {
	mu           sync.Mutex
	chunks       [][]byte
	readGate     chan struct{} // closed => reads may proceed
	closed       chan struct{}
	closeCnt     int
	writes       [][]byte
	writeCnt     int
	blockAt      int           // index of the Write call that blocks until close (-1: none)
	failAt       int           // index of the Write call that fails (-1: none)
	failLen      int           // number of consecutive Write calls that fail, starting at failAt (0 means 1)
	failTimeout  bool          // the failing Write calls report a time-out (net.Error) instead of a plain error
	failNet      bool          // ... or a non-time-out net.Error
	pauseAt      int           // index of the Write call that waits for `release` and then proceeds normally (-1: none)
	release      chan struct{} // closed by the harness to let the paused Write go on
	delivered    chan struct{} // closed when every chunk has been handed to the reader
	endErr       error         // returned by Read once the chunks are exhausted (nil: block until Close)
	endWaitWrite bool          // the end of input is reported only after a Write call has begun
	endErrOnce   bool          // endErr is reported by one Read call only; later calls block until Close
	endErrGiven  bool
	delays       map[int]time.Duration // pause before handing out the chunk with this index (counted from the first)
	handed       int
	beforeDone   int
	before       func(idx int) // called (unlocked) before the chunk with this index is handed out: lets a scenario pace its input
}

func newMemConn(chunks [][]byte) *memConn {
	c := &memConn{chunks: chunks, closed: make(chan struct{}), blockAt: -1, failAt: -1, pauseAt: -1, release: make(chan struct{}),
		readGate: make(chan struct{}), delivered: make(chan struct{})}
	close(c.readGate)
	if len(chunks) == 0 {
		close(c.delivered)
	}
	return c
}

var errMemClosed = errors.New("memconn closed")

func (c *memConn) Read(p []byte) (int, error) {
	select {
	case <-c.readGate:
	case <-c.closed:
		return 0, errMemClosed
	}
	c.mu.Lock()
	if c.before != nil && len(c.chunks) > 0 && c.beforeDone <= c.handed {
		c.beforeDone = c.handed + 1
		idx := c.handed
		c.mu.Unlock()
		c.before(idx)
		c.mu.Lock()
	}
	if d, ok := c.delays[c.handed]; ok && len(c.chunks) > 0 {
		delete(c.delays, c.handed)
		c.mu.Unlock()
		select {
		case <-time.After(d):
		case <-c.closed:
			return 0, errMemClosed
		}
		c.mu.Lock()
	}
	if len(c.chunks) > 0 {
		ch := c.chunks[0]
		n := copy(p, ch)
		if n < len(ch) {
			c.chunks[0] = ch[n:]
		} else {
			c.chunks = c.chunks[1:]
			c.handed++
			if len(c.chunks) == 0 {
				close(c.delivered)
			}
		}
		c.mu.Unlock()
		return n, nil
	}
	once := c.endErrOnce && c.endErrGiven
	c.endErrGiven = true
	c.mu.Unlock()
	if c.endErr != nil && !once {
		if c.endWaitWrite {
			// the read side fails only once a Write call is in progress (it blocks, see blockAt): reader and writer are both in the transport
			dl := time.Now().Add(2 * time.Second)
			for time.Now().Before(dl) {
				c.mu.Lock()
				w := c.writeCnt
				c.mu.Unlock()
				if w > 0 {
					break
				}
				time.Sleep(200 * time.Microsecond)
			}
			time.Sleep(2 * time.Millisecond)
		}
		return 0, c.endErr
	}
	<-c.closed
	return 0, errMemClosed
}

func (c *memConn) Write(p []byte) (int, error) {
	c.mu.Lock()
	k := c.writeCnt
	c.writeCnt++
	c.mu.Unlock()
	if k == c.pauseAt {
		select {
		case <-c.release:
		case <-c.closed:
			return 0, errMemClosed
		}
	}
	if c.failAt >= 0 && k >= c.failAt && k < c.failAt+max(1, c.failLen) {
		if c.failTimeout {
			// what a socket with a write deadline returns: a net.Error whose Timeout() is true
			return 0, &net.OpError{Op: "write", Net: "mem", Err: os.ErrDeadlineExceeded}
		}
		if c.failNet {
			// a hard network error that is not a time-out (the route went away): also a net.Error
			return 0, &net.OpError{Op: "write", Net: "mem", Err: syscall.ENETUNREACH}
		}
		return 0, trErr{k}
	}
	if k == c.blockAt {
		<-c.closed
		return 0, errMemClosed
	}
	select {
	case <-c.closed:
		return 0, errMemClosed
	default:
	}
	c.mu.Lock()
	c.writes = append(c.writes, append([]byte(nil), p...))
	c.mu.Unlock()
	return len(p), nil
}

func (c *memConn) Close() error {
	c.mu.Lock()
	c.closeCnt++
	first := c.closeCnt == 1
	c.mu.Unlock()
	if first {
		close(c.closed)
	}
	return nil
}

func (c *memConn) snapshotWrites() [][]byte {
	c.mu.Lock()
	defer c.mu.Unlock()
	return append([][]byte(nil), c.writes...)
}

// chunkify splits b according to a plan (sizes cycled).
func chunkify(b []byte, plan []int) [][]byte {
	if len(plan) == 0 {
		if len(b) == 0 {
			return nil
		}
		return [][]byte{b}
	}
	var out [][]byte
	i := 0
	for len(b) > 0 {
		n := plan[i%len(plan)]
		i++
		if n < 1 {
			n = 1
		}
		if n > len(b) {
			n = len(b)
		}
		out = append(out, b[:n])
		b = b[n:]
	}
	return out
}

// evString canonicalises an event.
func evString(e gomavlib.Event) string {
	switch ev := e.(type) {
	case *gomavlib.EventChannelOpen:
		return "O"
	case *gomavlib.EventChannelClose:
		if ev.Error == nil {
			return "C(nil)"
		}
		s := ev.Error.Error()
		switch {
		case errors.Is(ev.Error, io.EOF):
			s = "eof"
		case errors.Is(ev.Error, errMemClosed):
			s = "closed"
		case strings.HasPrefix(s, "tr"):
		default:
			s = "other"
		}
		return "C(" + s + ")"
	case *gomavlib.EventFrame:
		return "F" + encFrame(ev.Frame)
	case *gomavlib.EventParseError:
		var re frame.ReadError
		if errors.As(ev.Error, &re) {
			return "P" + perrKind(ev.Error.Error())
		}
		return "P?"
	case *gomavlib.EventStreamRequested:
		return fmt.Sprintf("S(%d,%d)", ev.SystemID, ev.ComponentID)
	}
	return "?"
}

func evChannel(e gomavlib.Event) *gomavlib.Channel {
	switch ev := e.(type) {
	case *gomavlib.EventChannelOpen:
		return ev.Channel
	case *gomavlib.EventChannelClose:
		return ev.Channel
	case *gomavlib.EventFrame:
		return ev.Channel
	case *gomavlib.EventParseError:
		return ev.Channel
	case *gomavlib.EventStreamRequested:
		return ev.Channel
	}
	return nil
}

// gomavlib goroutines still alive (by stack inspection)
func libGoroutines() int {
	buf := make([]byte, 1<<20)
	n := runtime.Stack(buf, true)
	cnt := 0
	for _, g := range strings.Split(string(buf[:n]), "\n\n") {
		if isLibGoroutine(g) {
			cnt++
		}
	}
	return cnt
}

// first library frame of every library goroutine still alive
func libGoroutineTops() []string {
	buf := make([]byte, 1<<20)
	n := runtime.Stack(buf, true)
	var tops []string
	for _, g := range strings.Split(string(buf[:n]), "\n\n") {
		if !isLibGoroutine(g) {
			continue
		}
		for _, l := range strings.Split(g, "\n") {
			if strings.Contains(l, "gomavlib/v3") || strings.Contains(l, "pion/") {
				if i := strings.LastIndexByte(l, '('); i > 0 {
					l = l[:i]
				}
				tops = append(tops, strings.TrimSpace(l))
				break
			}
		}
	}
	return tops
}

func isLibGoroutine(g string) bool {
	if strings.Contains(g, "gomavlib/v3.") || strings.Contains(g, "gomavlib/v3/pkg") || strings.Contains(g, "github.com/pion/") {
		if strings.Contains(g, "main.") && !strings.Contains(g, "created by github.com/bluenviron/gomavlib") &&
			!strings.Contains(g, "created by github.com/pion/") {
			return false // a harness goroutine calling into the library
		}
		return true
	}
	return false
}

func waitNoLibGoroutines(d time.Duration) int {
	deadline := time.Now().Add(d)
	for {
		n := libGoroutines()
		if n == 0 || time.Now().After(deadline) {
			return n
		}
		time.Sleep(5 * time.Millisecond)
	}
}
