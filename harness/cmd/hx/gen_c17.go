package main

import (
	"fmt"
	"reflect"
	"strings"

	tela "verif/harness/cmd/hx/fwa/telemetry"
	telb "verif/harness/cmd/hx/fwb/telemetry"

	"github.com/bluenviron/gomavlib/v3/pkg/dialect"
	"github.com/bluenviron/gomavlib/v3/pkg/message"
)

// --- dialects that must be REJECTED at initialisation ---

type MessageDupA struct{ A uint8 }

func (*MessageDupA) GetID() uint32 { return 7 }

type MessageDupB struct{ B uint16 }

func (*MessageDupB) GetID() uint32 { return 7 }

type MessageBadBool struct {
	A uint8
	B bool
}

func (*MessageBadBool) GetID() uint32 { return 8 }

type MessageBadEnum struct {
	E uint8 `mavenum:"uint8"`
}

func (*MessageBadEnum) GetID() uint32 { return 9 }

type MessageBadEnumType struct {
	E UEnum `mavenum:"float32"`
}

func (*MessageBadEnumType) GetID() uint32 { return 10 }

type MessageBadLen struct {
	S string `mavlen:"x3"`
}

func (*MessageBadLen) GetID() uint32 { return 11 }

// structs that are not MAVLink definitions in ways the run-time cannot survive (or silently mis-sizes): they must be
// refused by Initialize, not fail at the first Write / Read
type MessageBadUnexp struct {
	A     uint8
	count uint16 //nolint:unused
}

func (*MessageBadUnexp) GetID() uint32 { return 20 }

type MessageBadStrArr struct{ S [3]string }

func (*MessageBadStrArr) GetID() uint32 { return 21 }

type MessageBadZeroArr struct {
	A [0]uint8
	B uint8
}

func (*MessageBadZeroArr) GetID() uint32 { return 22 }

type MessageBadBigArr struct{ A [300]uint8 }

func (*MessageBadBigArr) GetID() uint32 { return 23 }

type MessageBadTooBig struct {
	A [200]uint8
	B [14]uint32
}

func (*MessageBadTooBig) GetID() uint32 { return 24 }

type MessageBadLenNeg struct {
	S string `mavlen:"-3"`
}

func (*MessageBadLenNeg) GetID() uint32 { return 25 }

type MessageBadLenZero struct {
	S string `mavlen:"0"`
	B uint8
}

func (*MessageBadLenZero) GetID() uint32 { return 26 }

type MessageBadLenBig struct {
	S string `mavlen:"300"`
}

func (*MessageBadLenBig) GetID() uint32 { return 27 }

type MessageBadExtFirst struct {
	A uint8 `mavext:"true"`
	B uint32
}

func (*MessageBadExtFirst) GetID() uint32 { return 28 }

type MessageBadWide struct{ A [40]uint64 } // one field of 320 bytes: the byte-wide size wraps to 64

func (*MessageBadWide) GetID() uint32 { return 29 }

type MessageBadExact struct { // 256 bytes: one more than fits
	A [31]uint64
	B [8]uint8
}

func (*MessageBadExact) GetID() uint32 { return 30 }

// defined types over a supported kind, without the enum tag: not fields of a message (the codec dispatches on the exact type)
type Celsius float32

type MessageBadNamed struct {
	T [2]Celsius
	B uint8
}

func (*MessageBadNamed) GetID() uint32 { return 32 }

type MessageBadNamedEnum struct {
	K UEnum // the `mavenum` tag was lost
	V uint32
}

func (*MessageBadNamedEnum) GetID() uint32 { return 33 }

// enum fields at a wire width the codec does not have (every mavenum tag outside uint8/int8/uint16/uint32/int32/uint64),
// on a named enum type and on a plain uint64
type MessageBadEnum16 struct {
	E UEnum `mavenum:"int16"`
	V uint8
}

func (*MessageBadEnum16) GetID() uint32 { return 34 }

type MessageBadEnum16Plain struct {
	E uint64 `mavenum:"int16"`
	V uint8
}

func (*MessageBadEnum16Plain) GetID() uint32 { return 35 }

type MessageBadEnum64s struct {
	V uint8
	E UEnum `mavenum:"int64"`
}

func (*MessageBadEnum64s) GetID() uint32 { return 36 }

type MessageBadEnumDouble struct {
	E [2]UEnum `mavenum:"float64"`
}

func (*MessageBadEnumDouble) GetID() uint32 { return 37 }

type MessageBadEnumChar struct {
	E UEnum `mavenum:"char"`
}

func (*MessageBadEnumChar) GetID() uint32 { return 38 }

type MessageBadEnumCType struct {
	E uint64 `mavenum:"uint8_t"`
}

func (*MessageBadEnumCType) GetID() uint32 { return 39 }

type MessageBadEnum16Ext struct {
	V uint8
	E [3]uint64 `mavenum:"int16" mavext:"true"`
}

func (*MessageBadEnum16Ext) GetID() uint32 { return 40 }

// struct names the run-time cannot map to a message name (it drops the first character of what follows `Message`): nothing,
// a lower-case letter, a digit, an underscore after the prefix
type Message struct{ A uint8 }

func (*Message) GetID() uint32 { return 44 }

type Messagex struct{ A uint8 }

func (*Messagex) GetID() uint32 { return 45 }

type Message9 struct{ A uint8 }

func (*Message9) GetID() uint32 { return 46 }

type Message_ struct{ A uint8 } //nolint

func (*Message_) GetID() uint32 { return 47 }

// too big only when the extension fields are counted (the limit is on the whole payload): base 104, extensions 152 / 200
type MessageBadTooBigExt struct {
	A uint32
	B [100]uint8
	S string `mavext:"true" mavlen:"200"`
}

func (*MessageBadTooBigExt) GetID() uint32 { return 41 }

type MessageBadTooBigExt1 struct {
	A uint32
	B [100]uint8
	X [19]uint64 `mavext:"true"`
}

func (*MessageBadTooBigExt1) GetID() uint32 { return 42 }

// base 104 + extensions 151 = 255: the largest struct with extensions that IS a definition
type MessageUserMaxExt struct {
	A uint32
	B [100]uint8
	X [151]int8 `mavext:"true"`
}

func (*MessageUserMaxExt) GetID() uint32 { return 43 }

// the largest struct that IS a definition (255 bytes, array of 255): accepted and usable
type MessageUserMax struct {
	A [255]uint8
}

func (*MessageUserMax) GetID() uint32 { return 31 }

var malformed = []message.Message{&MessageBadUnexp{}, &MessageBadStrArr{}, &MessageBadZeroArr{}, &MessageBadBigArr{}, &MessageBadTooBig{},
	&MessageBadLenNeg{}, &MessageBadLenZero{}, &MessageBadLenBig{}, &MessageBadExtFirst{}, &MessageBadWide{}, &MessageBadExact{}, &MessageBadNamed{}, &MessageBadNamedEnum{},
	&MessageBadEnum16{}, &MessageBadEnum16Plain{}, &MessageBadEnum64s{}, &MessageBadEnumDouble{}, &MessageBadEnumChar{}, &MessageBadEnumCType{}, &MessageBadEnum16Ext{}, &MessageBadTooBigExt{}, &MessageBadTooBigExt1{},
	&Message{}, &Messagex{}, &Message9{}, &Message_{}}

// implDuse: first use of one message struct (init, write the zero value in both versions, read an empty and a full payload)
func implDuse(t []string) (out string) {
	id := uint32(atoiU(t[2]))
	var m message.Message
	for _, c := range getDialect(t[1]).Messages {
		if c.GetID() == id {
			m = c
		}
	}
	if m == nil {
		return "no-such-message"
	}
	defer func() {
		if r := recover(); r != nil {
			out = "panic"
		}
	}()
	rw := &message.ReadWriter{Message: m}
	if err := rw.Initialize(); err != nil {
		return "init-err"
	}
	zero := reflect.New(reflect.TypeOf(m).Elem()).Interface().(message.Message)
	rw.Write(zero, false)
	rw.Write(zero, true)
	rw.Read(&message.MessageRaw{ID: id, Payload: []byte{}}, true)          //nolint:errcheck
	rw.Read(&message.MessageRaw{ID: id, Payload: make([]byte, 255)}, true) //nolint:errcheck
	return "ok"
}

type NotMessagePrefix struct{ A uint8 }

func (*NotMessagePrefix) GetID() uint32 { return 12 }

func init() {
	one := &MessageUserOne{}
	dialects["baddup"] = &dialect.Dialect{Version: 1, Messages: []message.Message{one, &MessageDupA{}, &MessageDupB{}}}
	dialects["baddup2"] = &dialect.Dialect{Version: 1, Messages: []message.Message{&MessageDupA{}, one, &MessageDupA{}}}
	dialects["badbool"] = &dialect.Dialect{Version: 1, Messages: []message.Message{one, &MessageBadBool{}}}
	dialects["badenum"] = &dialect.Dialect{Version: 1, Messages: []message.Message{&MessageBadEnum{}}}
	dialects["badenumtype"] = &dialect.Dialect{Version: 1, Messages: []message.Message{&MessageBadEnumType{}, one}}
	dialects["badlen"] = &dialect.Dialect{Version: 1, Messages: []message.Message{one, &MessageBadLen{}}}
	dialects["badname"] = &dialect.Dialect{Version: 1, Messages: []message.Message{&NotMessagePrefix{}}}
	// two user dialects whose message types share package name and type name but are different Go types
	dialects["fwa"] = &dialect.Dialect{Version: 1, Messages: []message.Message{&tela.MessageStatus{}}}
	dialects["fwb"] = &dialect.Dialect{Version: 1, Messages: []message.Message{&telb.MessageStatus{}}}
	// a malformed struct AND a duplicate: the first problem in list order is reported
	dialects["badboth"] = &dialect.Dialect{Version: 1, Messages: []message.Message{one, &MessageBadBool{}, one}}
	for i, m := range malformed {
		dn := fmt.Sprintf("badform%d", i)
		dialects[dn] = &dialect.Dialect{Version: 1, Messages: []message.Message{one, m}}
		badDialects = append(badDialects, dn)
	}
	dialects["usermax"] = &dialect.Dialect{Version: 1, Messages: []message.Message{one, &MessageUserMax{}, &MessageUserMaxExt{}}}
	dialects["badboth2"] = &dialect.Dialect{Version: 1, Messages: []message.Message{one, one, &MessageBadBool{}}}
}

var badDialects = []string{"baddup", "baddup2", "badbool", "badenum", "badenumtype", "badlen", "badname", "badboth", "badboth2"}

func implDinit(t []string) string {
	rw := &dialect.ReadWriter{Dialect: getDialect(t[1])}
	err := rw.Initialize()
	if err != nil {
		s := err.Error()
		if strings.HasPrefix(s, "duplicate message with id ") {
			return "err:duplicate-" + strings.TrimPrefix(s, "duplicate message with id ")
		}
		// "message %T: %w": find the id of the offending message by its type name
		for _, m := range getDialect(t[1]).Messages {
			if strings.HasPrefix(s, fmt.Sprintf("message %T: ", m)) {
				return fmt.Sprintf("err:message-%d", m.GetID())
			}
		}
		return "err:other"
	}
	return fmt.Sprintf("ok n=%d", len(getDialect(t[1]).Messages))
}

func implDget(t []string) string {
	rw := getDialectRW(t[1])
	mrw := rw.GetMessage(uint32(atoiU(t[2])))
	if mrw == nil {
		return "none"
	}
	return fmt.Sprintf("crc=%d name=%s", mrw.CRCExtra(), reflect.TypeOf(mrw.Message).Elem().Name())
}

// dtype <dn> <id>: defining package of the Go type of the message (type identity across dialects)
func implDtype(t []string) string {
	m := findMsg(t[1], uint32(atoiU(t[2])))
	if m == nil {
		return "none"
	}
	ty := reflect.TypeOf(m).Elem()
	p := ty.PkgPath()
	return p[strings.LastIndexByte(p, '/')+1:] + "." + ty.Name()
}

// C17: shipped dialects well-formed and mutually consistent.
func genC17(r *rngT, n int, tier string) {
	for _, dn := range dialectNames() {
		if strings.HasPrefix(dn, "bad") || strings.HasPrefix(dn, "fw") {
			continue
		}
		defineDialect(dn)
		execOp("dinit " + dn)
		ids := map[uint32]bool{}
		for _, m := range getDialect(dn).Messages {
			ids[m.GetID()] = true
		}
		probe := map[uint32]bool{0: true, 1: true, 255: true, 256: true, 1<<24 - 1: true, 1 << 24: true, 1<<32 - 1: true}
		for id := range ids {
			probe[id] = true
			probe[id+1] = true
			if id > 0 {
				probe[id-1] = true
			}
			// ids that share the low bits of a present id (a table keyed by part of the id would alias them)
			if tier != "thorough" && id%5 != 0 {
				continue
			}
			for _, d := range []uint32{1 << 8, 1 << 16, 2 << 16, 255 << 16, 1 << 23, 1 << 24, 1 << 31} {
				probe[id+d] = true
				probe[id^d] = true
			}
			probe[id&0xFFFF] = true
			probe[id&0xFF] = true
		}
		rnd := 50
		if tier == "thorough" {
			rnd = 5000
		}
		for i := 0; i < rnd; i++ {
			probe[uint32(r.Intn(1<<24))] = true
		}
		for id := range probe {
			execOp(fmt.Sprintf("dget %s %d", dn, id))
			if ids[id] {
				stat("c17-present")
			} else {
				stat("c17-absent")
			}
		}
		if strings.HasPrefix(dn, "user") {
			for id := range ids {
				execOp(fmt.Sprintf("duse %s %d", dn, id))
			}
		}
		if !strings.HasPrefix(dn, "user") && !strings.HasPrefix(dn, "fw") {
			for id := range ids {
				execOp(fmt.Sprintf("dtype %s %d", dn, id))
			}
		}
	}
	// CRC_EXTRA of every message of the dialect `common`, as the running code computes it, against the published table
	for _, m := range getDialect("common").Messages {
		execOp(fmt.Sprintf("pubcrc %d", m.GetID()))
		stat("c17-pubcrc")
	}
	// same-named types from different packages: each dialect must get its own codec
	for _, dn := range []string{"fwa", "fwb", "fwa"} {
		if !defined[dn] {
			defineDialect(dn)
		}
		execOp("dinit " + dn)
		execOp("dget " + dn + " 1")
		for k := 0; k < 3; k++ {
			v := randValue(r, getDialect(dn).Messages[0])
			execOp(fmt.Sprintf("msgenc %s 1 v2 %s", dn, encVals(v)))
		}
	}
	for _, dn := range badDialects {
		// definitions of a rejected dialect: every message is announced (also the ones that do not initialise)
		for _, m := range getDialect(dn).Messages {
			name, body := structBody(m)
			execOp(fmt.Sprintf("defmsg %s %d %s %s", dn, m.GetID(), name, body))
		}
		execOp("dinit " + dn)
		for _, m := range getDialect(dn).Messages {
			execOp(fmt.Sprintf("duse %s %d", dn, m.GetID()))
		}
		stat("c17-rejected-dialect")
	}
}
