#!/usr/bin/env python3
"""Write seeded/<id>/meta.json from notes.md, verify.log and seeded/catch_results.txt."""
import os, re, json, glob, subprocess
ROOT = os.path.dirname(os.path.dirname(os.path.abspath(__file__)))
catch = {}
for l in open(os.path.join(ROOT, "seeded", "catch_results.txt")):
    s, p, k = l.split()
    catch.setdefault(s, []).append({"check": p, "result": k})
head = subprocess.check_output(["git", "-C", "/repo", "rev-parse", "--short", "HEAD"], text=True).strip()
for d in sorted(glob.glob(os.path.join(ROOT, "seeded", "S*"))):
    sid = os.path.basename(d)
    notes = open(os.path.join(d, "notes.md")).read()
    title = notes.strip().split("\n")[0].lstrip("# ").strip()
    m = re.search(r"##\s*What is needed[^\n]*\n(.*?)(?=\n## |\Z)", notes, re.S)
    needs = re.sub(r"\s+", " ", m.group(1)).strip()[:1200] if m else ""
    m2 = re.search(r"##\s*The change[^\n]*\n(.*?)(?=\n## |\Z)", notes, re.S)
    change = re.sub(r"\s+", " ", m2.group(1)).strip()[:900] if m2 else ""
    v = [l for l in open(os.path.join(d, "verify.log")) if l.startswith(sid)]
    vline = v[-1].strip() if v else ""
    mm = re.search(r"suite_with_change=(\w+) demo_with_change=(\w+) demo_without_change=(\w+) cmd=\[(.*)\]", vline)
    meta = {
        "id": sid,
        "property": sid.split("-")[1],
        "title": title,
        "change": change,
        "needs_to_manifest": needs,
        "patch": "patch.rebased.diff" if os.path.exists(os.path.join(d, "patch.rebased.diff")) else "patch.diff",
        "rebased_by_hand": os.path.exists(os.path.join(d, "patch.rebased.diff")),
        "author": "fresh sub-agent given only the property text and a scratch worktree of /repo",
        "verified_against_repo_commit": head,
        "verification": {
            "applies_and_builds": bool(mm),
            "existing_suite_with_change": mm.group(1) if mm else None,
            "demonstration_with_change": mm.group(2) if mm else None,
            "demonstration_without_change": mm.group(3) if mm else None,
            "demonstration_cmd": mm.group(4) if mm else None,
            "how": "tools/verify_seeds.sh in a scratch worktree outside /repo and /verif, removed afterwards",
        },
        "checks_run": catch.get(sid, []),
        "caught": any(c["result"] in ("input", "no-failing-input-found") for c in catch.get(sid, [])),
        "how_run": "tools/seedtest.sh: git -C /repo apply <patch>; ./check <property> --tier quick; git -C /repo reset --hard (never committed)",
    }
    json.dump(meta, open(os.path.join(d, "meta.json"), "w"), indent=1)
    print(sid, meta["caught"], [c["check"] + ":" + c["result"] for c in meta["checks_run"]])
