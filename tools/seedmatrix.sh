#!/bin/bash
# usage: tools/seedmatrix.sh   — run every seeded change against the check(s) meant to catch it; writes seeded/catch_results.txt
cd /verif
out=seeded/catch_results.txt
: > $out
run() { # seed-dir property
  r=$(tools/seedtest.sh seeded/$1 $2 quick 2>&1 | grep -E "^VIOLATION|^OK|PATCH DOES NOT APPLY" | tail -1)
  kind="missed"
  case "$r" in
    *no-failing-input-found*) kind="no-failing-input-found" ;;
    VIOLATION*) kind="input" ;;
    *"PATCH DOES NOT APPLY"*) kind="patch-does-not-apply" ;;
  esac
  echo "$1 $2 $kind" | tee -a $out
}
for d in seeded/S*-C*; do
  s=$(basename $d); p=${s#*-}
  run $s $p
done
run S06-C06 C01
run S10-C10 C06
run S10-C10 C07
run S12-C12 C13
