module verif/extract

go 1.23
