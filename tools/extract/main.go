// extract: TIE-G translator. Parses /repo's current working tree (go/parser, go/ast) and writes
// Lean files under -out:
//   Consts.lean  — constants and literal tables (G-const)
//   Exprs.lean   — straight-line integer code translated expression by expression (G-expr)
//   Tables.lean  — the field-type tables of pkg/message (G-table)
//   Src.lean     — SHA-256 of the normalised source of every modelled function (G-seq pin)
// It fails loudly when an anchor it needs is missing or has a shape it cannot translate.
package main

import (
	"bytes"
	"crypto/sha256"
	"encoding/hex"
	"flag"
	"fmt"
	"go/ast"
	"go/constant"
	"go/parser"
	"go/printer"
	"go/token"
	"os"
	"path/filepath"
	"sort"
	"strconv"
	"strings"
)

var fset = token.NewFileSet()
var repo string

func die(format string, a ...interface{}) {
	fmt.Fprintf(os.Stderr, "extract: "+format+"\n", a...)
	os.Exit(1)
}

type pkgT struct {
	files map[string]*ast.File
}

var pkgs = map[string]*pkgT{}

func loadPkg(dir string) *pkgT {
	if p, ok := pkgs[dir]; ok {
		return p
	}
	p := &pkgT{files: map[string]*ast.File{}}
	ents, err := os.ReadDir(filepath.Join(repo, dir))
	if err != nil {
		die("cannot read %s: %v", dir, err)
	}
	for _, e := range ents {
		n := e.Name()
		if e.IsDir() || !strings.HasSuffix(n, ".go") || strings.HasSuffix(n, "_test.go") {
			continue
		}
		path := filepath.Join(repo, dir, n)
		src, err := os.ReadFile(path)
		if err != nil {
			die("%v", err)
		}
		// skip build-tag guarded instrumentation
		if bytes.HasPrefix(src, []byte("//go:build verif")) {
			continue
		}
		f, err := parser.ParseFile(fset, path, src, parser.SkipObjectResolution)
		if err != nil {
			die("parse %s: %v", path, err)
		}
		p.files[n] = f
	}
	pkgs[dir] = p
	return p
}

// findFunc: name is "Recv.Method" or "func".
func findFunc(dir, name string) *ast.FuncDecl {
	p := loadPkg(dir)
	recv, fn := "", name
	if i := strings.IndexByte(name, '.'); i >= 0 {
		recv, fn = name[:i], name[i+1:]
	}
	for _, f := range p.files {
		for _, d := range f.Decls {
			fd, ok := d.(*ast.FuncDecl)
			if !ok || fd.Name.Name != fn {
				continue
			}
			r := ""
			if fd.Recv != nil && len(fd.Recv.List) == 1 {
				t := fd.Recv.List[0].Type
				if s, ok := t.(*ast.StarExpr); ok {
					t = s.X
				}
				if id, ok := t.(*ast.Ident); ok {
					r = id.Name
				}
			}
			if r == recv {
				return fd
			}
		}
	}
	die("anchor function %s.%s not found in %s", recv, fn, dir)
	return nil
}

func render(n ast.Node) string {
	var b bytes.Buffer
	cfg := printer.Config{Mode: printer.RawFormat, Tabwidth: 1}
	if err := cfg.Fprint(&b, fset, n); err != nil {
		die("print: %v", err)
	}
	return b.String()
}

// normalised source of a function: printed from the AST without comments, whitespace collapsed.
func normSrc(fd *ast.FuncDecl) string {
	cp := *fd
	cp.Doc = nil
	// printing a node detached from its file drops comments inside the body
	s := render(&cp)
	return strings.Join(strings.Fields(s), " ")
}

// ---------------------------------------------------------------- constants

func constVal(dir, name string) constant.Value {
	p := loadPkg(dir)
	for _, f := range p.files {
		for _, d := range f.Decls {
			gd, ok := d.(*ast.GenDecl)
			if !ok || (gd.Tok != token.CONST && gd.Tok != token.VAR) {
				continue
			}
			for _, sp := range gd.Specs {
				vs := sp.(*ast.ValueSpec)
				for i, n := range vs.Names {
					if n.Name == name && i < len(vs.Values) {
						return evalConst(vs.Values[i])
					}
				}
			}
		}
	}
	die("anchor constant %s not found in %s", name, dir)
	return nil
}

var durations = map[string]int64{"Nanosecond": 1, "Microsecond": 1000, "Millisecond": 1000000, "Second": 1000000000, "Minute": 60000000000}

func evalConst(e ast.Expr) constant.Value {
	switch v := e.(type) {
	case *ast.BasicLit:
		c := constant.MakeFromLiteral(v.Value, v.Kind, 0)
		if c.Kind() == constant.Unknown {
			die("bad literal %s", v.Value)
		}
		return c
	case *ast.ParenExpr:
		return evalConst(v.X)
	case *ast.BinaryExpr:
		a, b := evalConst(v.X), evalConst(v.Y)
		if v.Op == token.SHL || v.Op == token.SHR {
			s, _ := constant.Uint64Val(b)
			return constant.Shift(a, v.Op, uint(s))
		}
		return constant.BinaryOp(a, v.Op, b)
	case *ast.SelectorExpr:
		if id, ok := v.X.(*ast.Ident); ok && id.Name == "time" {
			if d, ok := durations[v.Sel.Name]; ok {
				return constant.MakeInt64(d)
			}
		}
	}
	die("cannot fold constant expression %s", render(e))
	return nil
}

func constNat(dir, name string) string {
	c := constVal(dir, name)
	if c.Kind() != constant.Int {
		die("constant %s is not an integer", name)
	}
	return c.ExactString()
}

// ---------------------------------------------------------------- expression translator

type env struct {
	types map[string]string // Go expression text -> Go type
	names map[string]string // Go expression text -> Lean name
}

var leanTy = map[string]string{"uint8": "UInt8", "byte": "UInt8", "uint16": "UInt16", "uint32": "UInt32", "uint64": "UInt64", "bool": "Bool"}
var bits = map[string]int{"uint8": 8, "byte": 8, "uint16": 16, "uint32": 32, "uint64": 64}

func (e *env) typeOf(x ast.Expr) string {
	switch v := x.(type) {
	case *ast.ParenExpr:
		return e.typeOf(v.X)
	case *ast.BasicLit:
		return "" // untyped
	case *ast.Ident, *ast.SelectorExpr, *ast.IndexExpr:
		if t, ok := e.types[render(x)]; ok {
			return t
		}
		die("no type known for %s", render(x))
	case *ast.CallExpr:
		if id, ok := v.Fun.(*ast.Ident); ok {
			if _, ok := bits[id.Name]; ok {
				return id.Name
			}
		}
		die("unsupported call %s", render(x))
	case *ast.BinaryExpr:
		switch v.Op {
		case token.LSS, token.GTR, token.LEQ, token.GEQ, token.EQL, token.NEQ, token.LAND, token.LOR:
			return "bool"
		case token.SHL, token.SHR:
			return e.typeOf(v.X)
		}
		if t := e.typeOf(v.X); t != "" {
			return t
		}
		return e.typeOf(v.Y)
	case *ast.UnaryExpr:
		if v.Op == token.NOT {
			return "bool"
		}
		return e.typeOf(v.X)
	}
	die("cannot type %s", render(x))
	return ""
}

func norm(t string) string {
	if t == "byte" {
		return "uint8"
	}
	return t
}

// tr translates an expression; want is the Go type imposed by context ("" = none).
func (e *env) tr(x ast.Expr, want string) string {
	switch v := x.(type) {
	case *ast.ParenExpr:
		return "(" + e.tr(v.X, want) + ")"
	case *ast.BasicLit:
		c := evalConst(v)
		if want == "" || want == "bool" {
			die("untyped literal %s without context", v.Value)
		}
		return fmt.Sprintf("(%s : %s)", c.ExactString(), leanTy[want])
	case *ast.Ident, *ast.SelectorExpr, *ast.IndexExpr:
		if n, ok := e.names[render(x)]; ok {
			return n
		}
		die("no Lean name for %s", render(x))
	case *ast.CallExpr:
		id, ok := v.Fun.(*ast.Ident)
		if !ok || len(v.Args) != 1 {
			die("unsupported call %s", render(x))
		}
		to := norm(id.Name)
		if _, ok := bits[to]; !ok {
			die("unsupported conversion %s", render(x))
		}
		from := norm(e.typeOf(v.Args[0]))
		if from == "" {
			return e.tr(v.Args[0], to)
		}
		if from == to {
			return e.tr(v.Args[0], from)
		}
		return fmt.Sprintf("(%s).to%s", e.tr(v.Args[0], from), leanTy[to])
	case *ast.UnaryExpr:
		if v.Op == token.NOT {
			return "(!" + e.tr(v.X, "bool") + ")"
		}
		if v.Op == token.XOR {
			return "(~~~" + e.tr(v.X, want) + ")"
		}
	case *ast.BinaryExpr:
		switch v.Op {
		case token.LAND:
			return "(" + e.tr(v.X, "bool") + " && " + e.tr(v.Y, "bool") + ")"
		case token.LOR:
			return "(" + e.tr(v.X, "bool") + " || " + e.tr(v.Y, "bool") + ")"
		case token.LSS, token.GTR, token.LEQ, token.GEQ, token.EQL, token.NEQ:
			t := e.typeOf(v.X)
			if t == "" {
				t = e.typeOf(v.Y)
			}
			op := map[token.Token]string{token.LSS: "<", token.GTR: ">", token.LEQ: "≤", token.GEQ: "≥", token.EQL: "==", token.NEQ: "!="}[v.Op]
			if v.Op == token.EQL || v.Op == token.NEQ {
				return "(" + e.tr(v.X, t) + " " + op + " " + e.tr(v.Y, t) + ")"
			}
			return "(decide (" + e.tr(v.X, t) + " " + op + " " + e.tr(v.Y, t) + "))"
		case token.SHL, token.SHR:
			t := norm(e.typeOf(v.X))
			if t == "" {
				t = want
			}
			c := evalConst(v.Y)
			n, _ := constant.Int64Val(c)
			if n < 0 || int(n) >= bits[t] {
				die("shift count %d not below the width of %s in %s", n, t, render(x))
			}
			op := "<<<"
			if v.Op == token.SHR {
				op = ">>>"
			}
			return fmt.Sprintf("(%s %s (%d : %s))", e.tr(v.X, t), op, n, leanTy[t])
		default:
			t := norm(e.typeOf(x))
			if t == "" {
				t = want
			}
			op, ok := map[token.Token]string{token.ADD: "+", token.SUB: "-", token.MUL: "*", token.QUO: "/", token.REM: "%",
				token.AND: "&&&", token.OR: "|||", token.XOR: "^^^"}[v.Op]
			if !ok {
				die("unsupported operator in %s", render(x))
			}
			// constant sub-expressions are folded like the Go compiler does
			if isConst(v) {
				return fmt.Sprintf("(%s : %s)", evalConst(v).ExactString(), leanTy[t])
			}
			return "(" + e.tr(v.X, t) + " " + op + " " + e.tr(v.Y, t) + ")"
		}
	}
	die("cannot translate %s", render(x))
	return ""
}

func isConst(x ast.Expr) bool {
	switch v := x.(type) {
	case *ast.BasicLit:
		return true
	case *ast.ParenExpr:
		return isConst(v.X)
	case *ast.BinaryExpr:
		return isConst(v.X) && isConst(v.Y)
	}
	return false
}

// ---------------------------------------------------------------- G-expr extractors

func genX25Step() string {
	fd := findFunc("pkg/x25", "X25.Write")
	var rs *ast.RangeStmt
	for _, st := range fd.Body.List {
		if r, ok := st.(*ast.RangeStmt); ok {
			rs = r
		}
	}
	if rs == nil || len(fd.Body.List) != 1 || render(rs.X) != "p" || render(rs.Value) != "b" {
		die("X25.Write: expected a single `for _, b := range p` loop")
	}
	e := &env{types: map[string]string{"b": "uint8", "x.crc": "uint16"}, names: map[string]string{"b": "b", "x.crc": "crc"}}
	var out []string
	for _, st := range rs.Body.List {
		as, ok := st.(*ast.AssignStmt)
		if !ok || len(as.Lhs) != 1 || len(as.Rhs) != 1 {
			die("X25.Write: unsupported statement %s", render(st))
		}
		lhs := render(as.Lhs[0])
		var rhs ast.Expr = as.Rhs[0]
		switch as.Tok {
		case token.DEFINE:
			t := e.typeOf(rhs)
			e.types[lhs] = t
			e.names[lhs] = lhs
		case token.ASSIGN:
		case token.XOR_ASSIGN:
			rhs = &ast.BinaryExpr{X: as.Lhs[0], Op: token.XOR, Y: rhs}
		case token.AND_ASSIGN:
			rhs = &ast.BinaryExpr{X: as.Lhs[0], Op: token.AND, Y: rhs}
		case token.OR_ASSIGN:
			rhs = &ast.BinaryExpr{X: as.Lhs[0], Op: token.OR, Y: rhs}
		default:
			die("X25.Write: unsupported assignment %s", render(st))
		}
		t := e.types[lhs]
		out = append(out, fmt.Sprintf("  let %s : %s := %s", e.names[lhs], leanTy[t], e.tr(rhs, t)))
	}
	return "/-- body of the loop in pkg/x25 `(*X25).Write` -/\ndef x25Step (crc : UInt16) (b : UInt8) : UInt16 :=\n" + strings.Join(out, "\n") + "\n  crc\n"
}

// the replay-window refusal condition and update in Reader.Read
func genWindow() string {
	fd := findFunc("pkg/frame", "Reader.Read")
	var cond, ucond, urhs ast.Expr
	ast.Inspect(fd.Body, func(n ast.Node) bool {
		is, ok := n.(*ast.IfStmt)
		if !ok {
			return true
		}
		body := render(is.Body)
		if strings.Contains(body, "signature timestamp is too old") && len(is.Body.List) == 1 {
			cond = is.Cond
		}
		if len(is.Body.List) == 1 {
			if as, ok := is.Body.List[0].(*ast.AssignStmt); ok && as.Tok == token.ASSIGN && render(as.Lhs[0]) == "r.curReadSignatureTime" {
				ucond, urhs = is.Cond, as.Rhs[0]
			}
		}
		return true
	})
	if cond == nil || ucond == nil {
		die("Reader.Read: replay-window condition / update not found")
	}
	// the update must be the only assignment to curReadSignatureTime
	cnt := 0
	ast.Inspect(fd.Body, func(n ast.Node) bool {
		if as, ok := n.(*ast.AssignStmt); ok {
			for _, l := range as.Lhs {
				if render(l) == "r.curReadSignatureTime" {
					cnt++
				}
			}
		}
		return true
	})
	if cnt != 1 {
		die("Reader.Read: %d assignments to curReadSignatureTime (expected 1)", cnt)
	}
	e := &env{types: map[string]string{"r.curReadSignatureTime": "uint64", "ff.SignatureTimestamp": "uint64"},
		names: map[string]string{"r.curReadSignatureTime": "cur", "ff.SignatureTimestamp": "ts"}}
	return "/-- refusal condition of the replay window in `(*Reader).Read` -/\ndef windowRefuse (cur ts : UInt64) : Bool :=\n  " + e.tr(cond, "bool") +
		"\n\n/-- update of `curReadSignatureTime` in `(*Reader).Read` -/\ndef windowUpdate (cur ts : UInt64) : UInt64 :=\n  if " + e.tr(ucond, "bool") + " then " + e.tr(urhs, "uint64") + " else cur\n"
}

// uintNDecode(in []byte) T  /  uintNEncode(buf []byte, in T)
func genUintCodec(name string, n int, ty string) string {
	dec := findFunc("pkg/frame", name+"Decode")
	if len(dec.Body.List) != 1 {
		die("%sDecode: expected a single return", name)
	}
	ret, ok := dec.Body.List[0].(*ast.ReturnStmt)
	if !ok || len(ret.Results) != 1 {
		die("%sDecode: expected a single return", name)
	}
	e := &env{types: map[string]string{}, names: map[string]string{}}
	var params []string
	for i := 0; i < n; i++ {
		k := fmt.Sprintf("in[%d]", i)
		e.types[k] = "uint8"
		e.names[k] = fmt.Sprintf("b%d", i)
		params = append(params, fmt.Sprintf("b%d", i))
	}
	out := fmt.Sprintf("def %sDecode (%s : UInt8) : %s :=\n  %s\n\n", name, strings.Join(params, " "), leanTy[ty], e.tr(ret.Results[0], ty))
	enc := findFunc("pkg/frame", name+"Encode")
	e2 := &env{types: map[string]string{"in": ty}, names: map[string]string{"in": "x"}}
	var bs []string
	for i, st := range enc.Body.List {
		as, ok := st.(*ast.AssignStmt)
		if !ok || as.Tok != token.ASSIGN || render(as.Lhs[0]) != fmt.Sprintf("buf[%d]", i) {
			die("%sEncode: statement %d is not buf[%d] = ...", name, i, i)
		}
		bs = append(bs, e2.tr(as.Rhs[0], "uint8"))
	}
	if len(bs) != n {
		die("%sEncode: %d bytes written, expected %d", name, len(bs), n)
	}
	out += fmt.Sprintf("def %sEncode (x : %s) : List UInt8 :=\n  [%s]\n", name, leanTy[ty], strings.Join(bs, ",\n   "))
	return out
}

// byte((sum & 0xFF) ^ (sum >> 8)) at the end of the CRC_EXTRA closure
func genCrcExtraFold() string {
	fd := findFunc("pkg/message", "ReadWriter.Initialize")
	var found ast.Expr
	ast.Inspect(fd.Body, func(n ast.Node) bool {
		if r, ok := n.(*ast.ReturnStmt); ok && len(r.Results) == 1 {
			if strings.HasPrefix(render(r.Results[0]), "byte(") && strings.Contains(render(r.Results[0]), "sum") {
				found = r.Results[0]
			}
		}
		return true
	})
	if found == nil {
		die("ReadWriter.Initialize: CRC_EXTRA fold not found")
	}
	e := &env{types: map[string]string{"sum": "uint16"}, names: map[string]string{"sum": "sum"}}
	return "/-- final fold of CRC_EXTRA in `(*ReadWriter).Initialize` -/\ndef crcExtraFold (sum : UInt16) : UInt8 :=\n  " + e.tr(found, "uint8") + "\n"
}

// ---------------------------------------------------------------- tables of pkg/message

var ftypeLean = map[string]string{"typeDouble": "double", "typeUint64": "uint64", "typeInt64": "int64", "typeFloat": "float",
	"typeUint32": "uint32", "typeInt32": "int32", "typeUint16": "uint16", "typeInt16": "int16", "typeUint8": "uint8", "typeInt8": "int8", "typeChar": "char"}

func mapLit(dir, name string) [][2]string {
	p := loadPkg(dir)
	for _, f := range p.files {
		for _, d := range f.Decls {
			gd, ok := d.(*ast.GenDecl)
			if !ok || gd.Tok != token.VAR {
				continue
			}
			for _, sp := range gd.Specs {
				vs := sp.(*ast.ValueSpec)
				if len(vs.Names) == 1 && vs.Names[0].Name == name && len(vs.Values) == 1 {
					cl, ok := vs.Values[0].(*ast.CompositeLit)
					if !ok {
						die("%s is not a composite literal", name)
					}
					var out [][2]string
					for _, el := range cl.Elts {
						kv := el.(*ast.KeyValueExpr)
						out = append(out, [2]string{render(kv.Key), render(kv.Value)})
					}
					return out
				}
			}
		}
	}
	die("anchor table %s not found in %s", name, dir)
	return nil
}

func genTables() string {
	var b strings.Builder
	b.WriteString("-- GENERATED by tools/extract from pkg/message/readwriter.go — do not edit\nimport Mav.Basic\nnamespace Mav.Gen\n")
	// the iota block
	var order []string
	p := loadPkg("pkg/message")
	for _, f := range p.files {
		for _, d := range f.Decls {
			gd, ok := d.(*ast.GenDecl)
			if !ok || gd.Tok != token.CONST {
				continue
			}
			if len(gd.Specs) > 0 {
				first := gd.Specs[0].(*ast.ValueSpec)
				if first.Type != nil && render(first.Type) == "fieldType" {
					for _, sp := range gd.Specs {
						order = append(order, sp.(*ast.ValueSpec).Names[0].Name)
					}
				}
			}
		}
	}
	if len(order) == 0 {
		die("fieldType constant block not found")
	}
	var ctors []string
	for _, o := range order {
		l, ok := ftypeLean[o]
		if !ok {
			die("unknown field type constant %s", o)
		}
		ctors = append(ctors, l)
	}
	b.WriteString("inductive FType | " + strings.Join(ctors, " | ") + "\nderiving DecidableEq, Repr, Inhabited\n\n")
	b.WriteString("def fieldTypeFromGo : String → Option FType\n")
	for _, kv := range mapLit("pkg/message", "fieldTypeFromGo") {
		b.WriteString(fmt.Sprintf("  | %s => some .%s\n", kv[0], ftypeLean[kv[1]]))
	}
	b.WriteString("  | _ => none\n\ndef fieldTypeString : FType → String\n")
	seen := map[string]bool{}
	for _, kv := range mapLit("pkg/message", "fieldTypeString") {
		b.WriteString(fmt.Sprintf("  | .%s => %s\n", ftypeLean[kv[0]], kv[1]))
		seen[kv[0]] = true
	}
	if len(seen) != len(order) {
		die("fieldTypeString does not cover every field type")
	}
	b.WriteString("\ndef fieldTypeSizes : FType → UInt8\n")
	seen = map[string]bool{}
	for _, kv := range mapLit("pkg/message", "fieldTypeSizes") {
		b.WriteString(fmt.Sprintf("  | .%s => %s\n", ftypeLean[kv[0]], kv[1]))
		seen[kv[0]] = true
	}
	if len(seen) != len(order) {
		die("fieldTypeSizes does not cover every field type")
	}
	// enum-capable types: the empty case arms of `switch dialectType` in Initialize
	fd := findFunc("pkg/message", "ReadWriter.Initialize")
	var caps []string
	ast.Inspect(fd.Body, func(n ast.Node) bool {
		sw, ok := n.(*ast.SwitchStmt)
		if !ok || sw.Tag == nil || render(sw.Tag) != "dialectType" {
			return true
		}
		for _, c := range sw.Body.List {
			cc := c.(*ast.CaseClause)
			if cc.List == nil {
				continue // default
			}
			for _, x := range cc.List {
				// an arm that returns is a rejection
				rejects := false
				for _, s := range cc.Body {
					if _, ok := s.(*ast.ReturnStmt); ok {
						rejects = true
					}
				}
				if !rejects {
					caps = append(caps, ftypeLean[render(x)])
				}
			}
		}
		return false
	})
	if len(caps) == 0 {
		die("enum-capable switch not found in ReadWriter.Initialize")
	}
	b.WriteString("\n/-- types accepted for `mavenum` (the non-rejecting arms of `switch dialectType`) -/\ndef enumCapable : FType → Bool\n  | ." +
		strings.Join(caps, " | .") + " => true\n  | _ => false\nend Mav.Gen\n")
	return b.String()
}

// ---------------------------------------------------------------- pinned sources

type pin struct{ dir, fn string }

var pins = []pin{
	{"pkg/x25", "X25.Reset"}, {"pkg/x25", "X25.Write"}, {"pkg/x25", "X25.Sum16"}, {"pkg/x25", "New"},
	{"pkg/frame", "peekAndDiscard"}, {"pkg/frame", "V1Frame.GenerateChecksum"}, {"pkg/frame", "V1Frame.unmarshal"}, {"pkg/frame", "V1Frame.marshalTo"},
	{"pkg/frame", "uint24Decode"}, {"pkg/frame", "uint24Encode"}, {"pkg/frame", "uint48Decode"}, {"pkg/frame", "uint48Encode"},
	{"pkg/frame", "V2Frame.IsSigned"}, {"pkg/frame", "V2Frame.GenerateChecksum"}, {"pkg/frame", "V2Frame.GenerateSignature"},
	{"pkg/frame", "V2Frame.unmarshal"}, {"pkg/frame", "V2Frame.marshalTo"}, {"pkg/frame", "NewV2Key"},
	{"pkg/frame", "Reader.Initialize"}, {"pkg/frame", "Reader.Read"},
	{"pkg/frame", "encodeMessageInFrame"}, {"pkg/frame", "Writer.Initialize"}, {"pkg/frame", "Writer.WriteMessage"},
	{"pkg/frame", "Writer.writeFrameAndFill"}, {"pkg/frame", "Writer.Write"}, {"pkg/frame", "Writer.writeFrameInner"}, {"pkg/frame", "Writer.WriteFrame"},
	{"pkg/frame", "ReadWriter.Initialize"}, {"pkg/frame", "NewReader"}, {"pkg/frame", "NewWriter"},
	{"pkg/message", "removeEmptyBytes"}, {"pkg/message", "fieldGoToDef"}, {"pkg/message", "msgGoToDef"}, {"pkg/message", "readValue"},
	{"pkg/message", "writeValue"}, {"pkg/message", "ReadWriter.Initialize"}, {"pkg/message", "ReadWriter.CRCExtra"},
	{"pkg/message", "ReadWriter.Read"}, {"pkg/message", "ReadWriter.size"}, {"pkg/message", "ReadWriter.Write"}, {"pkg/message", "MessageRaw.GetID"},
	{"pkg/dialect", "ReadWriter.Initialize"}, {"pkg/dialect", "ReadWriter.GetMessage"},
	{"pkg/streamwriter", "encodeMessageInFrame"}, {"pkg/streamwriter", "Writer.Initialize"}, {"pkg/streamwriter", "Writer.Write"}, {"pkg/streamwriter", "Writer.writeInner"},
	{"pkg/tlog", "Reader.Initialize"}, {"pkg/tlog", "Reader.Read"}, {"pkg/tlog", "Writer.Initialize"}, {"pkg/tlog", "Writer.Write"},
	{"pkg/timednetconn", "New"}, {"pkg/timednetconn", "conn.Close"}, {"pkg/timednetconn", "conn.Read"}, {"pkg/timednetconn", "conn.Write"},
	{"pkg/conversion", "defAddrToName"}, {"pkg/conversion", "dialectNameGoToDef"}, {"pkg/conversion", "dialectNameDefToGo"},
	{"pkg/conversion", "parseDescription"}, {"pkg/conversion", "uintPow"}, {"pkg/conversion", "processDefinition"},
	{"pkg/conversion", "getDefinition"}, {"pkg/conversion", "processMessage"}, {"pkg/conversion", "processField"},
	{"pkg/conversion", "writeDialect"}, {"pkg/conversion", "writeEnum"}, {"pkg/conversion", "writeMessage"}, {"pkg/conversion", "Convert"}, {"pkg/conversion", "goFileName"},
	{"pkg/conversion", "definitionMessage.UnmarshalXML"}, {"pkg/conversion", "definitionDecode"},
}

// package-level variables whose initialisers are part of a model (templates, regular expressions, tables)
var varPins = []pin{
	{"pkg/conversion", "tplDialect"}, {"pkg/conversion", "tplEnum"}, {"pkg/conversion", "tplMessage"},
	{"pkg/conversion", "reMsgName"}, {"pkg/conversion", "reTypeIsArray"}, {"pkg/conversion", "dialectTypeToGo"},
}

func findVarInit(dir, name string) string {
	p := loadPkg(dir)
	for _, f := range p.files {
		for _, d := range f.Decls {
			gd, ok := d.(*ast.GenDecl)
			if !ok || gd.Tok != token.VAR {
				continue
			}
			for _, sp := range gd.Specs {
				vs := sp.(*ast.ValueSpec)
				for i, n := range vs.Names {
					if n.Name == name && i < len(vs.Values) {
						return strings.Join(strings.Fields(render(vs.Values[i])), " ")
					}
				}
			}
		}
	}
	die("variable %s not found in %s", name, dir)
	return ""
}

// every function of the root package (the node) is pinned
func rootPins() []pin {
	var out []pin
	p := loadPkg(".")
	var names []string
	for _, f := range p.files {
		for _, d := range f.Decls {
			fd, ok := d.(*ast.FuncDecl)
			if !ok {
				continue
			}
			r := ""
			if fd.Recv != nil && len(fd.Recv.List) == 1 {
				t := fd.Recv.List[0].Type
				if s, ok := t.(*ast.StarExpr); ok {
					t = s.X
				}
				if id, ok := t.(*ast.Ident); ok {
					r = id.Name + "."
				}
			}
			names = append(names, r+fd.Name.Name)
		}
	}
	sort.Strings(names)
	for _, n := range names {
		out = append(out, pin{".", n})
	}
	return out
}

func leanIdent(dir, fn string) string {
	d := strings.ReplaceAll(strings.TrimPrefix(dir, "pkg/"), "/", "_")
	if dir == "." {
		d = "node"
	}
	return "src_" + d + "_" + strings.ReplaceAll(fn, ".", "_")
}

func genSrc(printOnly bool) string {
	var b strings.Builder
	b.WriteString("-- GENERATED by tools/extract — SHA-256 of the normalised source (comments and layout removed) of every modelled function\nnamespace Mav.Gen\n")
	all := append(append([]pin{}, pins...), rootPins()...)
	for _, p := range all {
		fd := findFunc(p.dir, p.fn)
		h := sha256.Sum256([]byte(normSrc(fd)))
		b.WriteString(fmt.Sprintf("def %s : String := \"%s\"\n", leanIdent(p.dir, p.fn), hex.EncodeToString(h[:8])))
	}
	for _, p := range varPins {
		h := sha256.Sum256([]byte(findVarInit(p.dir, p.fn)))
		b.WriteString(fmt.Sprintf("def %s : String := \"%s\"\n", leanIdent(p.dir, "var_"+p.fn), hex.EncodeToString(h[:8])))
	}
	// bodies only (two functions with different names and the same body have the same hash)
	for _, p := range []pin{{"pkg/conversion", "dialectNameGoToDef"}, {"pkg/message", "fieldGoToDef"}} {
		fd := findFunc(p.dir, p.fn)
		h := sha256.Sum256([]byte(strings.Join(strings.Fields(render(fd.Type)+render(fd.Body)), " ")))
		b.WriteString(fmt.Sprintf("def %s : String := \"%s\"\n", leanIdent(p.dir, "body_"+p.fn), hex.EncodeToString(h[:8])))
	}
	b.WriteString("end Mav.Gen\n")
	return b.String()
}

// ---------------------------------------------------------------- constants file

func genConsts() string {
	var b strings.Builder
	b.WriteString("-- GENERATED by tools/extract — do not edit\nnamespace Mav.Gen\n")
	b.WriteString("def v1MagicByte : UInt8 := " + constNat("pkg/frame", "V1MagicByte") + "\n")
	b.WriteString("def v2MagicByte : UInt8 := " + constNat("pkg/frame", "V2MagicByte") + "\n")
	b.WriteString("def v2FlagSigned : UInt8 := " + constNat("pkg/frame", "V2FlagSigned") + "\n")
	b.WriteString("def bufferSize : Nat := " + constNat("pkg/frame", "bufferSize") + "\n")
	b.WriteString("def writeBufferSize : Nat := " + constNat(".", "writeBufferSize") + "\n")
	b.WriteString("def heartbeatID : Nat := " + constNat(".", "heartbeatID") + "\n")
	b.WriteString("def heartbeatCRC : Nat := " + constNat(".", "heartbeatCRC") + "\n")
	b.WriteString("def requestDataStreamID : Nat := " + constNat(".", "requestDataStreamID") + "\n")
	b.WriteString("def requestDataStreamCRC : Nat := " + constNat(".", "requestDataStreamCRC") + "\n")
	b.WriteString("def streamRequestPeriodNs : Nat := " + constNat(".", "streamRequestPeriod") + "\n")
	b.WriteString("def reconnectPeriodNs : Nat := " + constNat(".", "reconnectPeriod") + "\n")
	// signature timestamps: reference date and tick
	for _, dir := range []string{"pkg/frame", "pkg/streamwriter"} {
		ref := ""
		p := loadPkg(dir)
		for _, f := range p.files {
			ast.Inspect(f, func(n ast.Node) bool {
				vs, ok := n.(*ast.ValueSpec)
				if ok && len(vs.Names) == 1 && vs.Names[0].Name == "signatureReferenceDate" && len(vs.Values) == 1 {
					ref = strings.Join(strings.Fields(render(vs.Values[0])), "")
				}
				return true
			})
		}
		want := "time.Date(2015,0o1,0o1,0,0,0,0,time.UTC)"
		if ref != want {
			die("%s: signatureReferenceDate is %q, the extractor only understands %q", dir, ref, want)
		}
	}
	b.WriteString("/-- 2015-01-01T00:00:00Z as Unix seconds (the literal `time.Date(2015, 1, 1, 0, 0, 0, 0, time.UTC)` was recognised) -/\ndef sigRefUnix : Int := 1420070400\n")
	// tick divisor in streamwriter.writeInner and frame.Writer.writeFrameAndFill
	for _, fn := range [][2]string{{"pkg/streamwriter", "Writer.writeInner"}, {"pkg/frame", "Writer.writeFrameAndFill"}} {
		fd := findFunc(fn[0], fn[1])
		div := ""
		ast.Inspect(fd.Body, func(n ast.Node) bool {
			as, ok := n.(*ast.AssignStmt)
			if ok && len(as.Lhs) == 1 && render(as.Lhs[0]) == "ff.SignatureTimestamp" {
				be, ok := as.Rhs[0].(*ast.BinaryExpr)
				if ok && be.Op == token.QUO && strings.Join(strings.Fields(render(be.X)), "") == "uint64(time.Since(signatureReferenceDate))" {
					div = evalConst(be.Y).ExactString()
				}
			}
			return true
		})
		if div == "" {
			die("%s.%s: `ff.SignatureTimestamp = uint64(time.Since(signatureReferenceDate)) / K` not found", fn[0], fn[1])
		}
		name := "sigTickNs"
		if fn[0] == "pkg/frame" {
			name = "sigTickNsFrameWriter"
		}
		b.WriteString("def " + name + " : Nat := " + div + "\n")
	}
	// the list of requested streams
	fd := findFunc(".", "nodeStreamRequest.onEventFrame")
	streams := ""
	ast.Inspect(fd.Body, func(n ast.Node) bool {
		as, ok := n.(*ast.AssignStmt)
		if ok && len(as.Lhs) == 1 && render(as.Lhs[0]) == "streams" {
			cl, ok := as.Rhs[0].(*ast.CompositeLit)
			if ok {
				var vs []string
				for _, el := range cl.Elts {
					vs = append(vs, evalConst(el).ExactString())
				}
				streams = strings.Join(vs, ", ")
			}
		}
		return true
	})
	if streams == "" {
		die("onEventFrame: streams literal not found")
	}
	b.WriteString("def requestedStreams : List Nat := [" + streams + "]\n")
	// fields set by reflection: m.Elem().FieldByName("X").SetUint(EXPR), in source order
	setUints := func(fn string) string {
		fd := findFunc(".", fn)
		var vs []string
		ast.Inspect(fd.Body, func(n ast.Node) bool {
			ce, ok := n.(*ast.CallExpr)
			if !ok || len(ce.Args) != 1 {
				return true
			}
			se, ok := ce.Fun.(*ast.SelectorExpr)
			if !ok || se.Sel.Name != "SetUint" {
				return true
			}
			inner, ok := se.X.(*ast.CallExpr)
			if !ok || len(inner.Args) != 1 {
				return true
			}
			is, ok := inner.Fun.(*ast.SelectorExpr)
			if !ok || is.Sel.Name != "FieldByName" {
				return true
			}
			vs = append(vs, fmt.Sprintf("(%s, %q)", render(inner.Args[0]), render(ce.Args[0])))
			return true
		})
		if len(vs) == 0 {
			die("%s: no FieldByName(..).SetUint(..) found", fn)
		}
		return "[" + strings.Join(vs, ", ") + "]"
	}
	// generated file names: the last name elements the generator treats as reserved by the go tool (keys of a map literal)
	var sfx []string
	for _, kv := range mapLit("pkg/conversion", "reservedFileSuffixes") {
		k, err := strconv.Unquote(kv[0])
		if err != nil || kv[1] != "{}" {
			die("reservedFileSuffixes: entry %s: %s is not a string key with an empty struct", kv[0], kv[1])
		}
		sfx = append(sfx, fmt.Sprintf("%q", k))
	}
	sort.Strings(sfx)
	b.WriteString("def reservedFileSuffixes : List String := [" + strings.Join(sfx, ", ") + "]\n")
	b.WriteString("def heartbeatFields : List (String × String) := " + setUints("nodeHeartbeat.run") + "\n")
	b.WriteString("def streamRequestFields : List (String × String) := " + setUints("nodeStreamRequest.onEventFrame") + "\n")
	b.WriteString("end Mav.Gen\n")
	return b.String()
}

func genExprs() string {
	var b strings.Builder
	b.WriteString("-- GENERATED by tools/extract — Go expressions translated term by term (fixed-width wrap-around semantics = Lean UIntN)\nnamespace Mav.Gen\n\n")
	b.WriteString(genX25Step() + "\n")
	b.WriteString(genWindow() + "\n")
	b.WriteString(genUintCodec("uint24", 3, "uint32") + "\n")
	b.WriteString(genUintCodec("uint48", 6, "uint64") + "\n")
	b.WriteString(genCrcExtraFold() + "\n")
	b.WriteString("end Mav.Gen\n")
	return b.String()
}

func main() {
	out := flag.String("out", "", "output directory")
	flag.StringVar(&repo, "repo", "/repo", "repository root")
	hashes := flag.Bool("hashes", false, "print the source pins only")
	harnessEnums := flag.String("harness-enums", "", "write the harness enum registry (Go source) here")
	flag.Parse()
	if *hashes {
		fmt.Print(genSrc(true))
		return
	}
	if *out == "" {
		die("-out required")
	}
	files := map[string]string{
		"Consts.lean": genConsts(),
		"Exprs.lean":  genExprs(),
		"Tables.lean": genTables(),
		"Src.lean":    genSrc(false),
		"Access.lean": genAccess(),
	}
	for n, c := range files {
		if err := os.WriteFile(filepath.Join(*out, n), []byte(c), 0o644); err != nil {
			die("%v", err)
		}
	}
	_ = strconv.Itoa
	genMsgs(*out)
	genEnums(*out, *harnessEnums)
	fmt.Printf("extracted tables from %s\n", repo)
}
