package main

import (
	"fmt"
	"go/ast"
	"go/token"
	"os"
	"path/filepath"
	"reflect"
	"sort"
	"strconv"
	"strings"
)

type fieldT struct {
	goName, elemType                       string
	isArray                                bool
	arrLen                                 int
	elemIsUint64                           bool
	mavenum, mavlen, mavext, mavname       string
}

type msgT struct {
	pkg, goName string
	id          uint64
	fields      []fieldT
}

type dialectT struct {
	name    string
	version string
	msgs    []string // Go names, in order
}

var builtinKinds = map[string]bool{"uint8": true, "int8": true, "uint16": true, "int16": true, "uint32": true, "int32": true,
	"uint64": true, "int64": true, "float32": true, "float64": true, "string": true, "byte": true, "bool": true, "int": true, "uint": true}

// typeDecl finds `type name ...` in a dialect package.
func typeDecl(dir, name string) *ast.TypeSpec {
	p := loadPkg(dir)
	for _, f := range p.files {
		for _, d := range f.Decls {
			gd, ok := d.(*ast.GenDecl)
			if !ok || gd.Tok != token.TYPE {
				continue
			}
			for _, sp := range gd.Specs {
				ts := sp.(*ast.TypeSpec)
				if ts.Name.Name == name {
					return ts
				}
			}
		}
	}
	return nil
}

// resolve follows alias chains `type X = pkg.X` and returns the defining package dir and the TypeSpec.
func resolve(dir, name string) (string, *ast.TypeSpec, []string) {
	chain := []string{filepath.Base(dir)}
	for i := 0; i < 20; i++ {
		ts := typeDecl(dir, name)
		if ts == nil {
			die("type %s not found in %s", name, dir)
		}
		if ts.Assign.IsValid() { // alias
			sel, ok := ts.Type.(*ast.SelectorExpr)
			if !ok {
				die("alias %s in %s is not pkg.Name", name, dir)
			}
			if sel.Sel.Name != name {
				die("alias %s in %s renames to %s", name, dir, sel.Sel.Name)
			}
			dir = filepath.Join(filepath.Dir(dir), render(sel.X))
			chain = append(chain, filepath.Base(dir))
			continue
		}
		return dir, ts, chain
	}
	die("alias chain too long for %s", name)
	return "", nil, nil
}

func isUint64Kind(dir, tname string) bool {
	if tname == "uint64" {
		return true
	}
	if builtinKinds[tname] {
		return false
	}
	_, ts, _ := resolve(dir, tname)
	id, ok := ts.Type.(*ast.Ident)
	return ok && id.Name == "uint64"
}

func parseMsg(dir string, ts *ast.TypeSpec) []fieldT {
	st, ok := ts.Type.(*ast.StructType)
	if !ok {
		die("%s in %s is not a struct", ts.Name.Name, dir)
	}
	var out []fieldT
	for _, f := range st.Fields.List {
		if len(f.Names) != 1 {
			die("%s.%s: unsupported field declaration", dir, ts.Name.Name)
		}
		ft := fieldT{goName: f.Names[0].Name}
		t := f.Type
		if at, ok := t.(*ast.ArrayType); ok {
			if at.Len == nil {
				die("%s.%s.%s: slice field", dir, ts.Name.Name, ft.goName)
			}
			n, _ := strconv.Atoi(evalConst(at.Len).ExactString())
			ft.isArray, ft.arrLen = true, n
			t = at.Elt
		}
		id, ok := t.(*ast.Ident)
		if !ok {
			die("%s.%s.%s: unsupported field type %s", dir, ts.Name.Name, ft.goName, render(t))
		}
		ft.elemType = id.Name
		if id.Name == "byte" {
			ft.elemType = "uint8"
		}
		ft.elemIsUint64 = isUint64Kind(dir, id.Name)
		if f.Tag != nil {
			raw, err := strconv.Unquote(f.Tag.Value)
			if err != nil {
				die("bad tag %s", f.Tag.Value)
			}
			tag := reflect.StructTag(raw)
			ft.mavenum, ft.mavlen, ft.mavext, ft.mavname = tag.Get("mavenum"), tag.Get("mavlen"), tag.Get("mavext"), tag.Get("mavname")
		}
		out = append(out, ft)
	}
	return out
}

func getID(dir, goName string) uint64 {
	p := loadPkg(dir)
	for _, f := range p.files {
		for _, d := range f.Decls {
			fd, ok := d.(*ast.FuncDecl)
			if !ok || fd.Name.Name != "GetID" || fd.Recv == nil {
				continue
			}
			t := fd.Recv.List[0].Type
			if s, ok := t.(*ast.StarExpr); ok {
				t = s.X
			}
			if id, ok := t.(*ast.Ident); !ok || id.Name != goName {
				continue
			}
			if len(fd.Body.List) != 1 {
				die("%s.%s.GetID: not a single return", dir, goName)
			}
			ret := fd.Body.List[0].(*ast.ReturnStmt)
			v, _ := strconv.ParseUint(evalConst(ret.Results[0]).ExactString(), 10, 64)
			return v
		}
	}
	die("%s.%s: GetID not found", dir, goName)
	return 0
}

func parseDialect(dir string) dialectT {
	d := dialectT{name: filepath.Base(dir)}
	p := loadPkg(dir)
	for _, f := range p.files {
		ast.Inspect(f, func(n ast.Node) bool {
			cl, ok := n.(*ast.CompositeLit)
			if !ok || render(cl.Type) != "dialect.Dialect" {
				return true
			}
			for _, el := range cl.Elts {
				kv := el.(*ast.KeyValueExpr)
				switch render(kv.Key) {
				case "Version":
					d.version = evalConst(kv.Value).ExactString()
				case "Messages":
					for _, m := range kv.Value.(*ast.CompositeLit).Elts {
						u, ok := m.(*ast.UnaryExpr)
						if !ok {
							die("%s: unsupported message list entry %s", dir, render(m))
						}
						d.msgs = append(d.msgs, render(u.X.(*ast.CompositeLit).Type))
					}
				}
			}
			return false
		})
	}
	if d.version == "" {
		die("%s: dialect literal not found", dir)
	}
	return d
}

func lstr(s string) string { return strconv.Quote(s) }

func (m msgT) lean() string {
	var fs []string
	for _, f := range m.fields {
		parts := []string{"goName := " + lstr(f.goName), "elemType := " + lstr(f.elemType)}
		if f.isArray {
			parts = append(parts, "isArray := true", fmt.Sprintf("arrLen := %d", f.arrLen))
		}
		if f.elemIsUint64 {
			parts = append(parts, "elemIsUint64 := true")
		}
		for _, kv := range [][2]string{{"mavenum", f.mavenum}, {"mavlen", f.mavlen}, {"mavext", f.mavext}, {"mavname", f.mavname}} {
			if kv[1] != "" {
				parts = append(parts, kv[0]+" := "+lstr(kv[1]))
			}
		}
		fs = append(fs, "    { "+strings.Join(parts, ", ")+" }")
	}
	return fmt.Sprintf("{ name := %s, fields := [\n%s] }", lstr(m.goName), strings.Join(fs, ",\n"))
}

func (m msgT) body() string {
	var fs []string
	for _, f := range m.fields {
		ia, eu := "0", "0"
		if f.isArray {
			ia = "1"
		}
		if f.elemIsUint64 {
			eu = "1"
		}
		fs = append(fs, fmt.Sprintf("%s;%s;%d;%s;%s;%s;%s;%s;%s", f.goName, ia, f.arrLen, f.elemType, eu, f.mavenum, f.mavlen, f.mavext, f.mavname))
	}
	if len(fs) == 0 {
		return "-"
	}
	return strings.Join(fs, ",")
}

const chunkSize = 24

// genMsgs writes Msgs_k.lean, MsgsAll.lean, Dialects.lean and msgs.txt into out.
func genMsgs(out string) {
	root := "pkg/dialects"
	ents, err := os.ReadDir(filepath.Join(repo, root))
	if err != nil {
		die("%v", err)
	}
	var dialects []dialectT
	defs := map[string]msgT{} // key pkg.GoName
	var txt strings.Builder
	var dtxt strings.Builder
	var dl strings.Builder
	dl.WriteString("-- GENERATED by tools/extract from pkg/dialects/*/dialect.go and message_*.go — do not edit\nimport Mav.Model.DialectCheck\nnamespace Mav.Gen\n\n/-- one message of a dialect: Go name, id, defining package, alias chain -/\nstructure DMsg where\n  goName : String\n  id : Nat\n  defPkg : String\n  chain : List String\nderiving Repr, DecidableEq\n\nstructure Dialect where\n  name : String\n  version : Nat\n  msgs : List DMsg\nderiving Repr\n\n")
	var dnames []string
	var idThms []string
	var idLists []string
	var commonPairs []string // (id, Lean name of the definition) for the dialect "common"
	shared := map[string][]string{} // Go message name -> ("dialect", "defining package", id) of every dialect listing it
	for _, e := range ents {
		if !e.IsDir() {
			continue
		}
		dir := filepath.Join(root, e.Name())
		d := parseDialect(dir)
		dialects = append(dialects, d)
		dnames = append(dnames, "dialect_"+d.name)
		var ms []string
		for _, gn := range d.msgs {
			ddir, ts, chain := resolve(dir, gn)
			key := filepath.Base(ddir) + "." + gn
			m, ok := defs[key]
			if !ok {
				m = msgT{pkg: filepath.Base(ddir), goName: gn, id: getID(ddir, gn), fields: parseMsg(ddir, ts)}
				defs[key] = m
			}
			var ch []string
			for _, c := range chain {
				ch = append(ch, lstr(c))
			}
			ms = append(ms, fmt.Sprintf("  { goName := %s, id := %d, defPkg := %s, chain := [%s] }", lstr(gn), m.id, lstr(m.pkg), strings.Join(ch, ", ")))
			shared[gn] = append(shared[gn], fmt.Sprintf("(%s, %s, %d)", lstr(d.name), lstr(m.pkg), m.id))
			if d.name == "common" {
				commonPairs = append(commonPairs, fmt.Sprintf("(%d, m_%s_%s)", m.id, m.pkg, m.goName))
			}
			txt.WriteString(fmt.Sprintf("%s %d %s %s\n", d.name, m.id, gn, m.body()))
			dtxt.WriteString(fmt.Sprintf("defpkg %s %d %s.%s\n", d.name, m.id, m.pkg, gn))
		}
		// chunk the list literal
		var chunks []string
		for i := 0; i < len(ms); i += 30 {
			j := i + 30
			if j > len(ms) {
				j = len(ms)
			}
			chunks = append(chunks, "[\n"+strings.Join(ms[i:j], ",\n")+"]")
		}
		if len(chunks) == 0 {
			chunks = []string{"[]"}
		}
		dl.WriteString(fmt.Sprintf("def dialect_%s : Dialect := { name := %s, version := %s, msgs :=\n%s }\n\n", d.name, lstr(d.name), d.version, strings.Join(chunks, " ++\n")))
		var idl []string
		for _, gn := range d.msgs {
			ddir, _, _ := resolve(dir, gn)
			idl = append(idl, fmt.Sprint(defs[filepath.Base(ddir)+"."+gn].id))
		}
		var idchunks []string
		for i := 0; i < len(idl); i += 40 {
			j := i + 40
			if j > len(idl) {
				j = len(idl)
			}
			idchunks = append(idchunks, "["+strings.Join(idl[i:j], ", ")+"]")
		}
		if len(idchunks) == 0 {
			idchunks = []string{"[]"}
		}
		dl.WriteString(fmt.Sprintf("/-- the message ids of dialect %s, in the order of its message list -/\ndef ids_%s : List Nat := %s\n\n", d.name, d.name, strings.Join(idchunks, " ++ ")))
		dl.WriteString(fmt.Sprintf("set_option maxRecDepth 1000000 in\n/-- ENUMERATED (kernel-decided): message ids are unique within dialect %s -/\ntheorem ids_distinct_%s : Mav.idsDistinct ids_%s = true := by decide +kernel\n\n", d.name, d.name, d.name))
		idLists = append(idLists, fmt.Sprintf("(%s, ids_%s)", lstr(d.name), d.name))
		idThms = append(idThms, "ids_distinct_"+d.name)
	}
	// every message name, with where each dialect that lists it takes it from
	var snames []string
	for k := range shared {
		snames = append(snames, k)
	}
	sort.Strings(snames)
	var schunks []string
	for i := 0; i < len(snames); i += 60 {
		j := i + 60
		if j > len(snames) {
			j = len(snames)
		}
		var gs []string
		for _, k := range snames[i:j] {
			gs = append(gs, fmt.Sprintf("(%s, [%s])", lstr(k), strings.Join(shared[k], ", ")))
		}
		dl.WriteString(fmt.Sprintf("def msgGroups_%d : List (String × List (String × String × Nat)) := [\n  %s]\n\n", i/60, strings.Join(gs, ",\n  ")))
		schunks = append(schunks, fmt.Sprintf("msgGroups_%d", i/60))
	}
	dl.WriteString("/-- message name ↦ (dialect, defining package, id) for every dialect whose message list contains it -/\ndef allMsgGroups : List (List (String × List (String × String × Nat))) := [" + strings.Join(schunks, ", ") + "]\n\n")
	dl.WriteString("set_option maxRecDepth 1000000 in\n/-- ENUMERATED (kernel-decided): a message listed by several dialects is, in all of them, the type defined in ONE package, with one id -/\ntheorem msgs_shared : allMsgGroups.all (fun ch => ch.all Mav.sameDefinition) = true := by decide +kernel\n\n")
	dl.WriteString("def dialects : List Dialect := [" + strings.Join(dnames, ", ") + "]\n\n")
	dl.WriteString("/-- dialect name ↦ its message ids -/\ndef dialectIds : List (String × List Nat) := [" + strings.Join(idLists, ", ") + "]\n\n")
	dl.WriteString("theorem ids_distinct : dialectIds.all (fun d => Mav.idsDistinct d.2) = true := by\n  simp only [dialectIds, List.all_cons, List.all_nil, " + strings.Join(idThms, ", ") + ", Bool.and_self]\n\nend Mav.Gen\n")
	write(out, "Dialects.lean", dl.String())
	write(out, "msgs.txt", txt.String())
	write(out, "dialects.txt", dtxt.String())

	var keys []string
	for k := range defs {
		keys = append(keys, k)
	}
	sort.Strings(keys)
	nchunks := 0
	var all []string
	for i := 0; i < len(keys); i += chunkSize {
		j := i + chunkSize
		if j > len(keys) {
			j = len(keys)
		}
		var b strings.Builder
		b.WriteString("-- GENERATED by tools/extract from pkg/dialects/*/message_*.go — do not edit\nimport Mav.Model.MsgCheck\nnamespace Mav.Gen\nopen Mav.Msg\n\n")
		var names []string
		for _, k := range keys[i:j] {
			m := defs[k]
			n := "m_" + m.pkg + "_" + m.goName
			b.WriteString(fmt.Sprintf("def %s : GoStruct := %s\n\n", n, m.lean()))
			names = append(names, fmt.Sprintf("(%s, %d, %s)", lstr(m.pkg), m.id, n))
		}
		b.WriteString(fmt.Sprintf("def msgs_%d : List (String × Nat × GoStruct) := [\n  %s]\n\n", nchunks, strings.Join(names, ",\n  ")))
		b.WriteString(fmt.Sprintf("set_option maxRecDepth 1000000 in\n/-- ENUMERATED (kernel-decided): for every definition of this chunk the model's layout, sizes and CRC_EXTRA equal the spec's -/\ntheorem layout_%d : msgs_%d.all (fun m => Mav.layoutAgrees m.2.2) = true := by decide +kernel\n\nend Mav.Gen\n", nchunks, nchunks))
		write(out, fmt.Sprintf("Msgs_%d.lean", nchunks), b.String())
		all = append(all, fmt.Sprintf("msgs_%d", nchunks))
		nchunks++
	}
	var b strings.Builder
	b.WriteString("-- GENERATED by tools/extract — do not edit\n")
	for i := 0; i < nchunks; i++ {
		b.WriteString(fmt.Sprintf("import Mav.Gen.Msgs_%d\n", i))
	}
	b.WriteString("namespace Mav.Gen\n\n/-- every message struct defined under pkg/dialects (defining package, id, definition) -/\ndef allMsgs : List (String × Nat × Mav.Msg.GoStruct) :=\n  " + strings.Join(all, " ++ ") + "\n\n")
	var lem []string
	for i := 0; i < nchunks; i++ {
		lem = append(lem, fmt.Sprintf("layout_%d", i))
	}
	b.WriteString("theorem all_layout : allMsgs.all (fun m => Mav.layoutAgrees m.2.2) = true := by\n  simp only [allMsgs, List.all_append, " + strings.Join(lem, ", ") + ", Bool.and_self]\n\n")
	b.WriteString("/-- the dialect `common`: message id ↦ definition (through the alias chains) -/\ndef commonById : List (Nat × Mav.Msg.GoStruct) := [\n  " + strings.Join(commonPairs, ",\n  ") + "]\n\n")
	b.WriteString(fmt.Sprintf("def nMsgs : Nat := %d\nend Mav.Gen\n", len(keys)))
	write(out, "MsgsAll.lean", b.String())
}

func write(out, name, content string) {
	if err := os.WriteFile(filepath.Join(out, name), []byte(content), 0o644); err != nil {
		die("%v", err)
	}
}
