package main

// access.go — synchronisation facts of the root package (C15), regenerated on every run.
//
// For every field of every struct declared in the root package: which functions read or write it, which goroutines
// ("roles": the entry points from which the function is reachable in the static call graph) execute those functions, and
// which mutexes are held at the access. The Lean side (Mav/Props/C15.lean) states, field by field, the discipline the
// field is expected to obey (confined to one goroutine / guarded by a mutex / written only before publication) and the
// kernel checks the regenerated facts against it.

import (
	"fmt"
	"go/ast"
	"go/importer"
	"go/parser"
	"go/token"
	"go/types"
	"os"
	"sort"
	"strings"
)

type accessRec struct {
	strct, field string
	fn           string
	write        bool
	heldW, heldR []string
}

type accExtract struct {
	fset   *token.FileSet
	info   *types.Info
	pkg    *types.Package
	acc    []accessRec
	calls  map[string]map[string]bool // caller -> callees
	spawns map[string]bool            // goroutine entry functions
	funcs  map[string]bool
	byName map[string][]string // method name -> functions (for calls through interfaces)
}

func namedStruct(t types.Type) (string, bool) {
	for {
		if p, ok := t.(*types.Pointer); ok {
			t = p.Elem()
			continue
		}
		break
	}
	n, ok := t.(*types.Named)
	if !ok {
		return "", false
	}
	if _, ok := n.Underlying().(*types.Struct); !ok {
		return "", false
	}
	return n.Obj().Name(), true
}

func fieldKind(t types.Type) string {
	s := t.String()
	switch {
	case strings.HasPrefix(s, "chan ") || strings.HasPrefix(s, "<-chan") || strings.HasPrefix(s, "chan<-"):
		return "chan"
	case strings.HasPrefix(s, "sync.") || s == "context.Context" || s == "func()":
		return "sync"
	}
	return "plain"
}

func funcName(fd *ast.FuncDecl) string {
	if fd.Recv != nil && len(fd.Recv.List) == 1 {
		t := fd.Recv.List[0].Type
		if s, ok := t.(*ast.StarExpr); ok {
			t = s.X
		}
		if id, ok := t.(*ast.Ident); ok {
			return id.Name + "." + fd.Name.Name
		}
	}
	return fd.Name.Name
}

func (x *accExtract) calleeName(call *ast.CallExpr) []string {
	switch f := call.Fun.(type) {
	case *ast.Ident:
		if o, ok := x.info.Uses[f].(*types.Func); ok && o.Pkg() == x.pkg {
			return []string{o.Name()}
		}
	case *ast.SelectorExpr:
		sel := x.info.Selections[f]
		if sel == nil || sel.Kind() != types.MethodVal {
			return nil
		}
		fn, ok := sel.Obj().(*types.Func)
		if !ok || fn.Pkg() != x.pkg {
			return nil
		}
		recv := sel.Recv()
		if iface, isIface := recv.Underlying().(*types.Interface); isIface {
			// every type of the package that implements the interface
			var out []string
			for _, cand := range x.byName[fn.Name()] {
				tn, ok := x.pkg.Scope().Lookup(strings.SplitN(cand, ".", 2)[0]).(*types.TypeName)
				if !ok {
					continue
				}
				if types.Implements(tn.Type(), iface) || types.Implements(types.NewPointer(tn.Type()), iface) {
					out = append(out, cand)
				}
			}
			return out
		}
		if n, ok := namedStruct(recv); ok {
			return []string{n + "." + fn.Name()}
		}
		if nt, ok := recv.(*types.Named); ok {
			return []string{nt.Obj().Name() + "." + fn.Name()}
		}
	}
	return nil
}

// mutex operation on a field: returns (mutexField, op)
func (x *accExtract) mutexOp(call *ast.CallExpr) (string, string) {
	se, ok := call.Fun.(*ast.SelectorExpr)
	if !ok {
		return "", ""
	}
	switch se.Sel.Name {
	case "Lock", "Unlock", "RLock", "RUnlock":
	default:
		return "", ""
	}
	inner, ok := se.X.(*ast.SelectorExpr)
	if !ok {
		return "", ""
	}
	sel := x.info.Selections[inner]
	if sel == nil || sel.Kind() != types.FieldVal || !strings.HasPrefix(sel.Type().String(), "sync.") {
		return "", ""
	}
	return inner.Sel.Name, se.Sel.Name
}

type heldSet struct{ w, r map[string]bool }

func (h heldSet) clone() heldSet {
	n := heldSet{map[string]bool{}, map[string]bool{}}
	for k := range h.w {
		n.w[k] = true
	}
	for k := range h.r {
		n.r[k] = true
	}
	return n
}

func keys(m map[string]bool) []string {
	var ks []string
	for k := range m {
		ks = append(ks, k)
	}
	sort.Strings(ks)
	return ks
}

// record the field accesses of an expression; `write` marks the outermost selector (or the base of an index) as written
func (x *accExtract) expr(fn string, e ast.Expr, write bool, held heldSet) {
	switch v := e.(type) {
	case nil:
	case *ast.SelectorExpr:
		if sel := x.info.Selections[v]; sel != nil && sel.Kind() == types.FieldVal {
			if sn, ok := namedStruct(sel.Recv()); ok {
				if fo, ok := sel.Obj().(*types.Var); ok && fo.Pkg() == x.pkg {
					x.acc = append(x.acc, accessRec{sn, v.Sel.Name, fn, write, keys(held.w), keys(held.r)})
				}
			}
		}
		x.expr(fn, v.X, false, held)
	case *ast.IndexExpr:
		x.expr(fn, v.X, write, held) // m[k] = v writes the map held in the field
		x.expr(fn, v.Index, false, held)
	case *ast.StarExpr:
		x.expr(fn, v.X, write, held)
	case *ast.ParenExpr:
		x.expr(fn, v.X, write, held)
	case *ast.UnaryExpr:
		x.expr(fn, v.X, v.Op == token.AND, held) // &x.f: the address escapes, count as a write
	case *ast.BinaryExpr:
		x.expr(fn, v.X, false, held)
		x.expr(fn, v.Y, false, held)
	case *ast.CallExpr:
		if id, ok := v.Fun.(*ast.Ident); ok && id.Name == "delete" && len(v.Args) == 2 {
			x.expr(fn, v.Args[0], true, held)
			x.expr(fn, v.Args[1], false, held)
			return
		}
		for _, c := range x.calleeName(v) {
			if x.calls[fn] == nil {
				x.calls[fn] = map[string]bool{}
			}
			x.calls[fn][c] = true
		}
		if fl, ok := v.Fun.(*ast.FuncLit); ok {
			x.block(fn, fl.Body, held.clone()) // func(){...}(): runs here, with what is held here
		} else {
			x.expr(fn, v.Fun, false, held)
		}
		for _, a := range v.Args {
			x.expr(fn, a, false, held)
		}
	case *ast.FuncLit:
		x.block(fn, v.Body, heldSet{map[string]bool{}, map[string]bool{}}) // stored closure: runs later, nothing known to be held
	case *ast.CompositeLit:
		for _, el := range v.Elts {
			if kv, ok := el.(*ast.KeyValueExpr); ok {
				x.expr(fn, kv.Value, false, held)
			} else {
				x.expr(fn, el, false, held)
			}
		}
	case *ast.TypeAssertExpr:
		x.expr(fn, v.X, false, held)
	case *ast.SliceExpr:
		x.expr(fn, v.X, false, held)
		x.expr(fn, v.Low, false, held)
		x.expr(fn, v.High, false, held)
	case *ast.KeyValueExpr:
		x.expr(fn, v.Value, false, held)
	}
}

var goCounter = map[string]int{}

func (x *accExtract) stmt(fn string, s ast.Stmt, held heldSet) {
	switch v := s.(type) {
	case nil:
	case *ast.ExprStmt:
		if c, ok := v.X.(*ast.CallExpr); ok {
			if m, op := x.mutexOp(c); m != "" {
				switch op {
				case "Lock":
					held.w[m] = true
				case "Unlock":
					delete(held.w, m)
				case "RLock":
					held.r[m] = true
				case "RUnlock":
					delete(held.r, m)
				}
				return
			}
		}
		x.expr(fn, v.X, false, held)
	case *ast.DeferStmt:
		if m, _ := x.mutexOp(v.Call); m != "" {
			return // released when the function returns: held for the rest of the body
		}
		x.expr(fn, v.Call, false, held)
	case *ast.GoStmt:
		// a new goroutine: its body is a function of its own, nothing held
		if fl, ok := v.Call.Fun.(*ast.FuncLit); ok {
			goCounter[fn]++
			name := fmt.Sprintf("%s$go%d", fn, goCounter[fn])
			x.funcs[name] = true
			x.spawns[name] = true
			x.block(name, fl.Body, heldSet{map[string]bool{}, map[string]bool{}})
		} else {
			for _, c := range x.calleeName(v.Call) {
				x.spawns[c] = true
			}
			x.expr(fn, v.Call.Fun, false, held)
		}
		for _, a := range v.Call.Args {
			x.expr(fn, a, false, held)
		}
	case *ast.AssignStmt:
		for _, l := range v.Lhs {
			x.expr(fn, l, true, held)
		}
		for _, r := range v.Rhs {
			x.expr(fn, r, false, held)
		}
	case *ast.IncDecStmt:
		x.expr(fn, v.X, true, held)
	case *ast.SendStmt:
		x.expr(fn, v.Chan, false, held)
		x.expr(fn, v.Value, false, held)
	case *ast.ReturnStmt:
		for _, r := range v.Results {
			x.expr(fn, r, false, held)
		}
	case *ast.BlockStmt:
		x.block(fn, v, held)
	case *ast.IfStmt:
		x.stmt(fn, v.Init, held)
		x.expr(fn, v.Cond, false, held)
		x.block(fn, v.Body, held.clone())
		x.stmt(fn, v.Else, held.clone())
	case *ast.ForStmt:
		x.stmt(fn, v.Init, held)
		x.expr(fn, v.Cond, false, held)
		x.stmt(fn, v.Post, held)
		x.block(fn, v.Body, held.clone())
	case *ast.RangeStmt:
		x.expr(fn, v.X, false, held)
		x.block(fn, v.Body, held.clone())
	case *ast.SwitchStmt:
		x.stmt(fn, v.Init, held)
		x.expr(fn, v.Tag, false, held)
		x.block(fn, v.Body, held.clone())
	case *ast.TypeSwitchStmt:
		x.stmt(fn, v.Init, held)
		x.stmt(fn, v.Assign, held)
		x.block(fn, v.Body, held.clone())
	case *ast.CaseClause:
		for _, e := range v.List {
			x.expr(fn, e, false, held)
		}
		for _, st := range v.Body {
			x.stmt(fn, st, held)
		}
	case *ast.SelectStmt:
		x.block(fn, v.Body, held.clone())
	case *ast.CommClause:
		x.stmt(fn, v.Comm, held)
		for _, st := range v.Body {
			x.stmt(fn, st, held)
		}
	case *ast.DeclStmt:
		if gd, ok := v.Decl.(*ast.GenDecl); ok {
			for _, sp := range gd.Specs {
				if vs, ok := sp.(*ast.ValueSpec); ok {
					for _, e := range vs.Values {
						x.expr(fn, e, false, held)
					}
				}
			}
		}
	case *ast.LabeledStmt:
		x.stmt(fn, v.Stmt, held)
	}
}

func (x *accExtract) block(fn string, b *ast.BlockStmt, held heldSet) {
	if b == nil {
		return
	}
	for _, s := range b.List {
		x.stmt(fn, s, held)
	}
}

func leanStrList(l []string) string {
	q := make([]string, len(l))
	for i, s := range l {
		q[i] = fmt.Sprintf("%q", s)
	}
	return "[" + strings.Join(q, ", ") + "]"
}

func leanName(s string) string {
	return strings.NewReplacer(".", "_", "$", "_").Replace(s)
}

func genAccess() string {
	fset := token.NewFileSet()
	old, _ := os.Getwd()
	os.Chdir(repo) //nolint  the source importer resolves modules from the working directory
	defer os.Chdir(old)
	pkgs, err := parser.ParseDir(fset, repo, func(fi os.FileInfo) bool { return !strings.HasSuffix(fi.Name(), "_test.go") }, 0)
	if err != nil {
		die("access: %v", err)
	}
	var files []*ast.File
	var names []string
	for name := range pkgs["gomavlib"].Files {
		names = append(names, name)
	}
	sort.Strings(names)
	for _, name := range names {
		if strings.Contains(name, "verif_hooks") {
			continue
		}
		files = append(files, pkgs["gomavlib"].Files[name])
	}
	info := &types.Info{Selections: map[*ast.SelectorExpr]*types.Selection{}, Uses: map[*ast.Ident]types.Object{}, Defs: map[*ast.Ident]types.Object{}}
	conf := types.Config{Importer: importer.ForCompiler(fset, "source", nil)}
	pkg, err := conf.Check("github.com/bluenviron/gomavlib/v3", fset, files, info)
	if err != nil {
		die("access: type check: %v", err)
	}
	x := &accExtract{fset: fset, info: info, pkg: pkg, calls: map[string]map[string]bool{}, spawns: map[string]bool{},
		funcs: map[string]bool{}, byName: map[string][]string{}}
	var decls []*ast.FuncDecl
	for _, f := range files {
		for _, d := range f.Decls {
			if fd, ok := d.(*ast.FuncDecl); ok && fd.Body != nil {
				decls = append(decls, fd)
				n := funcName(fd)
				x.funcs[n] = true
				if fd.Recv != nil {
					x.byName[fd.Name.Name] = append(x.byName[fd.Name.Name], n)
				}
			}
		}
	}
	for _, fd := range decls {
		x.block(funcName(fd), fd.Body, heldSet{map[string]bool{}, map[string]bool{}})
	}
	// roles: entry points and what they reach
	entries := map[string][]string{} // role -> entry functions
	for f := range x.spawns {
		entries[f] = []string{f}
	}
	for _, fd := range decls {
		n := funcName(fd)
		if fd.Recv != nil && fd.Name.IsExported() && (strings.HasPrefix(n, "Node.") || strings.HasPrefix(n, "Channel.")) {
			if n == "Node.Initialize" {
				entries["init"] = append(entries["init"], n)
			} else {
				entries["app"] = append(entries["app"], n)
			}
		}
	}
	roles := map[string]map[string]bool{}
	for role, es := range entries {
		seen := map[string]bool{}
		var walk func(f string)
		walk = func(f string) {
			if seen[f] {
				return
			}
			seen[f] = true
			if roles[f] == nil {
				roles[f] = map[string]bool{}
			}
			roles[f][role] = true
			for c := range x.calls[f] {
				if !x.spawns[c] || role == c {
					walk(c)
				}
			}
		}
		for _, e := range es {
			walk(e)
		}
	}
	// constructors: the object is not shared yet
	isCtor := func(strct, fn string) bool {
		switch fn {
		case strct + ".initialize", strct + ".Initialize":
			return true
		}
		return strings.HasSuffix(fn, ".init") // EndpointXxx.init builds the endpoint value
	}
	// group by field
	type key struct{ s, f string }
	byField := map[key][]accessRec{}
	for _, a := range x.acc {
		byField[key{a.strct, a.field}] = append(byField[key{a.strct, a.field}], a)
	}
	var b strings.Builder
	b.WriteString("-- GENERATED by tools/extract (access.go) — synchronisation facts of the root package; do not edit\n")
	b.WriteString("namespace Mav.Gen.Access\n\n")
	b.WriteString("/-- one access to a field outside the constructors of its struct -/\nstructure Acc where\n  fn : String\n  roles : List String\n  write : Bool\n  heldW : List String\n  heldR : List String\nderiving DecidableEq, Repr\n\n")
	b.WriteString("structure Field where\n  strct : String\n  name : String\n  kind : String      -- chan | sync | plain\n  accs : List Acc\nderiving Repr\n\n")
	// all fields of all package structs
	var fieldNames []string
	scope := pkg.Scope()
	var structNames []string
	for _, n := range scope.Names() {
		if tn, ok := scope.Lookup(n).(*types.TypeName); ok {
			if _, ok := tn.Type().Underlying().(*types.Struct); ok {
				structNames = append(structNames, n)
			}
		}
	}
	sort.Strings(structNames)
	for _, sn := range structNames {
		st := scope.Lookup(sn).Type().Underlying().(*types.Struct)
		for i := 0; i < st.NumFields(); i++ {
			f := st.Field(i)
			accs := byField[key{sn, f.Name()}]
			seen := map[string]bool{}
			var items []string
			for _, a := range accs {
				if isCtor(sn, a.fn) {
					continue
				}
				rs := keys(roles[a.fn])
				it := fmt.Sprintf("{ fn := %q, roles := %s, write := %v, heldW := %s, heldR := %s }", a.fn, leanStrList(rs), a.write,
					leanStrList(a.heldW), leanStrList(a.heldR))
				if !seen[it] {
					seen[it] = true
					items = append(items, it)
				}
			}
			sort.Strings(items)
			name := leanName(sn + "." + f.Name())
			fieldNames = append(fieldNames, name)
			fmt.Fprintf(&b, "def %s : Field := { strct := %q, name := %q, kind := %q, accs := [\n    %s] }\n", name, sn, f.Name(), fieldKind(f.Type()),
				strings.Join(items, ",\n    "))
		}
	}
	b.WriteString("\n/-- every field of every struct of the package (a new field must be given a discipline before the check passes) -/\n")
	b.WriteString("def allFields : List Field := [" + strings.Join(fieldNames, ", ") + "]\n")
	var gs []string
	for g := range x.spawns {
		gs = append(gs, g)
	}
	sort.Strings(gs)
	b.WriteString("def goroutineEntries : List String := " + leanStrList(gs) + "\n")
	// ownership transfer: a value handed to the application through pushEvent must not be used by the sender afterwards
	b.WriteString("\n/-- uses of an event value (or of what it was built from) in the statements that FOLLOW its hand-over to the application\n    (`pushEvent(v)`), per function: \"function: variable\" -/\n")
	b.WriteString("def usesAfterHandoff : List String := " + leanStrList(usesAfterHandoff(decls, info)) + "\n")
	b.WriteString("\nend Mav.Gen.Access\n")
	return b.String()
}

// usesAfterHandoff: for every `x.pushEvent(v)` statement whose argument is a local variable, the later statements of the same
// block that still mention v, or a variable v was built from (`v := &EventFrame{fr, ch}`: fr).
func usesAfterHandoff(decls []*ast.FuncDecl, info *types.Info) []string {
	var out []string
	seen := map[string]bool{}
	for _, fd := range decls {
		fn := funcName(fd)
		// what each local variable was built from (composite literals only)
		builtFrom := map[types.Object][]types.Object{}
		ast.Inspect(fd.Body, func(n ast.Node) bool {
			as, ok := n.(*ast.AssignStmt)
			if !ok || len(as.Lhs) != 1 || len(as.Rhs) != 1 {
				return true
			}
			lhs, ok := as.Lhs[0].(*ast.Ident)
			if !ok {
				return true
			}
			obj := info.Defs[lhs]
			if obj == nil {
				obj = info.Uses[lhs]
			}
			if obj == nil {
				return true
			}
			rhs := as.Rhs[0]
			if u, ok := rhs.(*ast.UnaryExpr); ok {
				rhs = u.X
			}
			if cl, ok := rhs.(*ast.CompositeLit); ok {
				ast.Inspect(cl, func(m ast.Node) bool {
					if id, ok := m.(*ast.Ident); ok {
						if o, ok := info.Uses[id].(*types.Var); ok && !o.IsField() && o.Pkg() != nil && o.Parent() != o.Pkg().Scope() {
							if _, isPtrOrIface := o.Type().Underlying().(*types.Basic); !isPtrOrIface {
								builtFrom[obj] = append(builtFrom[obj], o)
							}
						}
					}
					return true
				})
			}
			return true
		})
		var walkBlock func(list []ast.Stmt)
		walkBlock = func(list []ast.Stmt) {
			for i, st := range list {
				if es, ok := st.(*ast.ExprStmt); ok {
					if call, ok := es.X.(*ast.CallExpr); ok {
						if sel, ok := call.Fun.(*ast.SelectorExpr); ok && sel.Sel.Name == "pushEvent" && len(call.Args) == 1 {
							if id, ok := call.Args[0].(*ast.Ident); ok {
								if v := info.Uses[id]; v != nil {
									watch := map[types.Object]string{v: id.Name}
									for _, o := range builtFrom[v] {
										if _, isChan := o.Type().Underlying().(*types.Pointer); !isChan || o.Name() != "ch" {
											watch[o] = o.Name()
										}
									}
									for _, later := range list[i+1:] {
										ast.Inspect(later, func(m ast.Node) bool {
											if lid, ok := m.(*ast.Ident); ok {
												if name, ok := watch[info.Uses[lid]]; ok {
													k := fn + ": " + name
													if !seen[k] {
														seen[k] = true
														out = append(out, k)
													}
												}
											}
											return true
										})
									}
								}
							}
						}
					}
				}
				// nested blocks
				ast.Inspect(st, func(m ast.Node) bool {
					if b, ok := m.(*ast.BlockStmt); ok {
						walkBlock(b.List)
						return false
					}
					return true
				})
			}
		}
		walkBlock(fd.Body.List)
	}
	sort.Strings(out)
	return out
}
