package main

import (
	"fmt"
	"go/ast"
	"go/token"
	"os"
	"path/filepath"
	"sort"
	"strings"
)

type enumConst struct {
	name  string
	value string // decimal
}

type enumT struct {
	pkg, name string
	alias     string // defining package when this is `type X = pkg.X`
	bitmask   bool
	loopBound int      // bitmask, old template: for i := 0; i < N; i++ { mask := 1 << i ...
	rangeList []string // bitmask, value-list form: for _, mask := range []T{A, B, ...}
	consts    []enumConst
}

// parseEnums reads every enum_*.go of a dialect package.
func parseEnums(dir string) []enumT {
	p := loadPkg(dir)
	var names []string
	for n := range p.files {
		if strings.HasPrefix(n, "enum_") {
			names = append(names, n)
		}
	}
	sort.Strings(names)
	var out []enumT
	for _, n := range names {
		f := p.files[n]
		e := enumT{pkg: filepath.Base(dir)}
		for _, d := range f.Decls {
			switch dd := d.(type) {
			case *ast.GenDecl:
				switch dd.Tok {
				case token.TYPE:
					ts := dd.Specs[0].(*ast.TypeSpec)
					e.name = ts.Name.Name
					if ts.Assign.IsValid() {
						sel := ts.Type.(*ast.SelectorExpr)
						e.alias = render(sel.X)
					} else if render(ts.Type) != "uint64" {
						die("%s/%s: enum type is %s, not uint64", dir, n, render(ts.Type))
					}
				case token.CONST:
					for _, sp := range dd.Specs {
						vs := sp.(*ast.ValueSpec)
						if len(vs.Names) != 1 || len(vs.Values) != 1 {
							die("%s/%s: unsupported const spec", dir, n)
						}
						c := enumConst{name: vs.Names[0].Name}
						if sel, ok := vs.Values[0].(*ast.SelectorExpr); ok {
							c.value = "@" + render(sel.X) + "." + sel.Sel.Name
						} else {
							c.value = evalConst(vs.Values[0]).ExactString()
						}
						e.consts = append(e.consts, c)
					}
				}
			case *ast.FuncDecl:
				if dd.Name.Name != "MarshalText" {
					continue
				}
				ast.Inspect(dd.Body, func(nd ast.Node) bool {
					switch st := nd.(type) {
					case *ast.ForStmt:
						e.bitmask = true
						be, ok := st.Cond.(*ast.BinaryExpr)
						if !ok || be.Op != token.LSS || render(be.X) != "i" || render(st.Init) != "i := 0" || render(st.Post) != "i++" {
							die("%s/%s: MarshalText loop has an unexpected shape: %s", dir, n, render(st.Cond))
						}
						fmt.Sscanf(evalConst(be.Y).ExactString(), "%d", &e.loopBound)
						body := strings.Join(strings.Fields(render(st.Body)), " ")
						want := fmt.Sprintf("{ mask := %s(1 << i) if e&mask == mask { names = append(names, labels_%s[mask]) } }", e.name, e.name)
						if body != want {
							die("%s/%s: MarshalText loop body differs from the known template: %s", dir, n, body)
						}
					case *ast.RangeStmt:
						e.bitmask = true
						cl, ok := st.X.(*ast.CompositeLit)
						if !ok || render(st.Value) != "mask" {
							die("%s/%s: MarshalText range has an unexpected shape", dir, n)
						}
						for _, el := range cl.Elts {
							e.rangeList = append(e.rangeList, render(el))
						}
						if len(e.rangeList) == 0 {
							e.rangeList = []string{}
						}
						body := strings.Join(strings.Fields(render(st.Body)), " ")
						want := fmt.Sprintf("{ if mask != 0 && e&mask == mask { names = append(names, labels_%s[mask]) } }", e.name)
						if body != want {
							die("%s/%s: MarshalText range body differs from the known template: %s", dir, n, body)
						}
					}
					return true
				})
			}
		}
		if e.name == "" {
			die("%s/%s: no enum type found", dir, n)
		}
		out = append(out, e)
	}
	return out
}

// genEnums writes Enums_k.lean / EnumsAll.lean, enums.txt (defenum preamble) and the harness registry.
func genEnums(out string, harnessFile string) {
	root := "pkg/dialects"
	ents, _ := os.ReadDir(filepath.Join(repo, root))
	var all []enumT
	for _, e := range ents {
		if e.IsDir() {
			all = append(all, parseEnums(filepath.Join(root, e.Name()))...)
		}
	}
	byKey := map[string]enumT{}
	for _, e := range all {
		byKey[e.pkg+"."+e.name] = e
	}
	// resolve alias constants to values
	resolveConst := func(pkg, name string) string {
		for i := 0; i < 20; i++ {
			found := false
			for _, e := range all {
				if e.pkg != pkg {
					continue
				}
				for _, c := range e.consts {
					if c.name == name {
						found = true
						if strings.HasPrefix(c.value, "@") {
							parts := strings.SplitN(c.value[1:], ".", 2)
							pkg, name = parts[0], parts[1]
						} else {
							return c.value
						}
					}
				}
			}
			if !found {
				die("constant %s.%s not found", pkg, name)
			}
		}
		die("alias chain too long for %s.%s", pkg, name)
		return ""
	}
	var defs []enumT
	var lean strings.Builder
	var txt strings.Builder
	var reg strings.Builder
	imports := map[string]bool{}
	// every constant of every package (aliases resolved): name -> (pkg, value)
	var constLines []string
	for _, e := range all {
		for _, c := range e.consts {
			v := c.value
			if strings.HasPrefix(v, "@") {
				parts := strings.SplitN(v[1:], ".", 2)
				v = resolveConst(parts[0], parts[1])
			}
			constLines = append(constLines, fmt.Sprintf("(%s, %s, %s)", lstr(c.name), lstr(e.pkg), v))
		}
		if e.alias == "" {
			defs = append(defs, e)
		}
	}
	sort.Slice(defs, func(i, j int) bool { return defs[i].pkg+"."+defs[i].name < defs[j].pkg+"."+defs[j].name })
	nch := 0
	var chunkNames []string
	for i := 0; i < len(defs); i += 25 {
		j := i + 25
		if j > len(defs) {
			j = len(defs)
		}
		var b strings.Builder
		b.WriteString("-- GENERATED by tools/extract from pkg/dialects/*/enum_*.go — do not edit\nimport Mav.Model.EnumCheck\nnamespace Mav.Gen\nopen Mav.EnumText\n\n")
		var ns []string
		for _, e := range defs[i:j] {
			var cs []string
			for _, c := range e.consts {
				cs = append(cs, fmt.Sprintf("(%s, %s)", lstr(c.name), c.value))
			}
			form := "Marshal.plain"
			if e.bitmask {
				if e.rangeList != nil {
					var vs []string
					for _, rn := range e.rangeList {
						found := false
						for _, c := range e.consts {
							if c.name == rn {
								vs = append(vs, c.value)
								found = true
							}
						}
						if !found {
							die("%s.%s: range element %s is not a constant of the enum", e.pkg, e.name, rn)
						}
					}
					form = "Marshal.valueList [" + strings.Join(vs, ", ") + "]"
				} else {
					form = fmt.Sprintf("Marshal.bitLoop %d", e.loopBound)
				}
			}
			n := "e_" + e.pkg + "_" + e.name
			// long lists are chunked to keep the elaborator's recursion depth low
			var parts []string
			for k := 0; k < len(cs); k += 40 {
				l := k + 40
				if l > len(cs) {
					l = len(cs)
				}
				parts = append(parts, "["+strings.Join(cs[k:l], ", ")+"]")
			}
			if len(parts) == 0 {
				parts = []string{"[]"}
			}
			b.WriteString(fmt.Sprintf("def %s : EnumDef := { name := %s, form := %s, consts :=\n  %s }\n\n", n, lstr(e.pkg+"."+e.name), form, strings.Join(parts, " ++\n  ")))
			ns = append(ns, n)
			// preamble line for the driver
			var kv []string
			for _, c := range e.consts {
				kv = append(kv, c.name+"="+c.value)
			}
			f := "plain"
			if e.bitmask {
				if e.rangeList != nil {
					var vs []string
					for _, rn := range e.rangeList {
						for _, c := range e.consts {
							if c.name == rn {
								vs = append(vs, c.value)
							}
						}
					}
					f = "list:" + strings.Join(vs, ";")
				} else {
					f = fmt.Sprintf("loop:%d", e.loopBound)
				}
			}
			txt.WriteString(fmt.Sprintf("defenum %s.%s %s %s\n", e.pkg, e.name, f, strings.Join(kv, ",")))
			// harness registry
			imports[e.pkg] = true
			var gc []string
			for _, c := range e.consts {
				gc = append(gc, fmt.Sprintf("{%q, %s}", c.name, c.value))
			}
			reg.WriteString(fmt.Sprintf("\t{%q, %v, func() enumIface { return new(%s.%s) }, func(v uint64) enumIface { x := %s.%s(v); return &x }, []enumConst{%s}},\n",
				e.pkg+"."+e.name, e.bitmask, e.pkg, e.name, e.pkg, e.name, strings.Join(gc, ", ")))
		}
		b.WriteString(fmt.Sprintf("def enums_%d : List EnumDef := [%s]\n\n", nch, strings.Join(ns, ", ")))
		b.WriteString(fmt.Sprintf("set_option maxRecDepth 1000000 in\n/-- ENUMERATED (kernel-decided): the value side of every enum table of this chunk is well-formed (Mav.EnumText.valuesOk) -/\ntheorem enumsOk_%d : enums_%d.all valuesOk = true := by decide +kernel\n\nend Mav.Gen\n", nch, nch))
		write(out, fmt.Sprintf("Enums_%d.lean", nch), b.String())
		chunkNames = append(chunkNames, fmt.Sprintf("enums_%d", nch))
		nch++
	}
	lean.WriteString("-- GENERATED by tools/extract — do not edit\nimport Mav.Model.DialectCheck\n")
	for i := 0; i < nch; i++ {
		lean.WriteString(fmt.Sprintf("import Mav.Gen.Enums_%d\n", i))
	}
	lean.WriteString("namespace Mav.Gen\n\n/-- every enum type defined (not aliased) under pkg/dialects -/\ndef allEnums : List Mav.EnumText.EnumDef :=\n  " + strings.Join(chunkNames, " ++ ") + "\n\n")
	lean.WriteString(fmt.Sprintf("def nEnums : Nat := %d\n\n", len(defs)))
	var oks []string
	for i := 0; i < nch; i++ {
		oks = append(oks, fmt.Sprintf("enumsOk_%d", i))
	}
	lean.WriteString("theorem all_enums_ok : allEnums.all Mav.EnumText.valuesOk = true := by\n  simp only [allEnums, List.all_append, " + strings.Join(oks, ", ") + ", Bool.and_self]\n\n")
	// constants across packages grouped by name: name ↦ [(package, value)], aliases resolved
	groups := map[string][]string{}
	var gnames []string
	for _, e := range all {
		for _, c := range e.consts {
			v := c.value
			if strings.HasPrefix(v, "@") {
				parts := strings.SplitN(v[1:], ".", 2)
				v = resolveConst(parts[0], parts[1])
			}
			if _, ok := groups[c.name]; !ok {
				gnames = append(gnames, c.name)
			}
			groups[c.name] = append(groups[c.name], fmt.Sprintf("(%s, %s)", lstr(e.pkg), v))
		}
	}
	sort.Strings(gnames)
	lean.WriteString("/-- every enum constant name ↦ the (package, value) pairs of all dialect packages that declare it (aliases resolved) -/\n")
	var cchunks []string
	for k := 0; k < len(gnames); k += 60 {
		l := k + 60
		if l > len(gnames) {
			l = len(gnames)
		}
		var gs []string
		for _, gn := range gnames[k:l] {
			gs = append(gs, fmt.Sprintf("(%s, [%s])", lstr(gn), strings.Join(groups[gn], ", ")))
		}
		lean.WriteString(fmt.Sprintf("def constGroups_%d : List (String × List (String × Nat)) := [\n  %s]\n", k/60, strings.Join(gs, ",\n  ")))
		cchunks = append(cchunks, fmt.Sprintf("constGroups_%d", k/60))
	}
	lean.WriteString("\ndef allConstGroups : List (List (String × List (String × Nat))) := [" + strings.Join(cchunks, ", ") + "]\n\n")
	lean.WriteString("set_option maxRecDepth 1000000 in\n/-- ENUMERATED (kernel-decided): every enum constant has the same value in every dialect package that declares it -/\ntheorem consts_consistent : allConstGroups.all (fun ch => ch.all Mav.groupConsistent) = true := by decide +kernel\n\n")
	lean.WriteString(fmt.Sprintf("def nConstNames : Nat := %d\nend Mav.Gen\n", len(gnames)))
	_ = constLines
	write(out, "EnumsAll.lean", lean.String())
	write(out, "enums.txt", txt.String())

	if harnessFile != "" {
		var h strings.Builder
		h.WriteString("// Code generated by /verif/tools/extract from pkg/dialects/*/enum_*.go. DO NOT EDIT.\n\npackage main\n\nimport (\n")
		var ps []string
		for p := range imports {
			ps = append(ps, p)
		}
		sort.Strings(ps)
		for _, p := range ps {
			h.WriteString(fmt.Sprintf("\t\"github.com/bluenviron/gomavlib/v3/pkg/dialects/%s\"\n", p))
		}
		h.WriteString(")\n\nvar enumRegistry = []enumReg{\n" + reg.String() + "}\n")
		if err := os.WriteFile(harnessFile, []byte(h.String()), 0o644); err != nil {
			die("%v", err)
		}
	}
}
