#!/usr/bin/env python3
"""Emit the (mechanical) Lean proof of a k-byte little-endian pack/unpack round trip by bit ranges."""
import sys
def proof(W,k,bound):
    ind="  "
    def facts(j,depth):
        pad=ind*depth
        out=[]
        if 1<=j<k:
            out.append(pad+f"have e : {8*j} + (i - {8*j}) = i := by omega")
        for m in range(1,k):
            if m==j:
                out.append(pad+f"have a{m} : i - {8*m} < 8 := by omega")
                out.append(pad+f"have b{m} : i - {8*m} < {W} := by omega")
            elif m<j:
                out.append(pad+f"have a{m} : ¬ (i - {8*m} < 8) := by omega")
        for m in range(0,k):
            if m<j: out.append(pad+f"have d{m} : ¬ (i < {8*(m+1)}) := by omega")
            else: out.append(pad+f"have d{m} : i < {8*(m+1)} := by omega")
        return out
    def nest(j,depth):
        pad=ind*depth
        if j==k:
            out=facts(k,depth)
            if bound:
                out.append(pad+f"have hb := getLsbD_false_of_lt x.toBitVec {8*k} i h' (by omega)")
                out.append(pad+"simp [*]")
                out.append(pad+"first | done | (rw [← BitVec.getLsbD_eq_getElem]; exact hb)")
            else:
                out.append(pad+"omega")
            return out
        out=[pad+f"by_cases h{j} : i < {8*(j+1)}"]
        out+=[pad+"· skip"]+facts(j,depth+1)+[ind*(depth+1)+"simp [*]"]
        out+=[pad+"· skip"]+nest(j+1,depth+1)
        return out
    return "\n".join(nest(0,1))
if __name__=="__main__":
    print(proof(int(sys.argv[1]),int(sys.argv[2]),sys.argv[3]=="1"))
