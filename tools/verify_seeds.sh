#!/bin/bash
# Confirm every seeded change in a scratch worktree of /repo's HEAD: it applies, builds, passes the unedited suite,
# its demonstration FAILS with it and PASSES without it. Writes seeded/<id>/verify.log and a summary line.
export GOFLAGS=-mod=mod GOPROXY=off GOSUMDB=off GOTOOLCHAIN=local
WT=/tmp/seedverify
for d in /verif/seeded/S*; do
  id=$(basename $d)
  [ -n "$1" ] && [ "$1" != "$id" ] && continue
  pf=$d/patch.diff; [ -f $d/patch.rebased.diff ] && pf=$d/patch.rebased.diff
  rm -rf $WT; git -C /repo worktree prune; git -C /repo worktree add -q --detach $WT HEAD || { echo "$id worktree-failed"; continue; }
  cd $WT
  log=$d/verify.log; : > $log
  if ! git apply $pf >>$log 2>&1; then echo "$id APPLY-FAILED"; git -C /repo worktree remove --force $WT; continue; fi
  go build ./... >>$log 2>&1 || { echo "$id BUILD-FAILED"; git -C /repo worktree remove --force $WT; continue; }
  suite=FAIL
  for try in 1 2 3; do
    if go test -count=1 ./... >>$log 2>&1; then suite=PASS; break; fi
  done
  # place the demo
  demo_cmd=$(grep -v '^\s*$' $d/demo_cmd.txt | grep -E "go (test|run)" | head -1 | sed 's/^.*\(go \(test\|run\)\)/\1/' | sed 's/`//g')
  pkgdir=$(echo "$demo_cmd" | grep -oE '\./[A-Za-z0-9_/.]*' | tail -1); [ -z "$pkgdir" ] && pkgdir=.
  if [ -d $d/zz_seed_demo ]; then mkdir -p $WT/pkg/dialect; cp -r $d/zz_seed_demo $WT/pkg/dialect/; 
  elif [ -d $d/demo ]; then cp -r $d/demo/. $WT/;
  else for t in $d/*_test.go; do mkdir -p $WT/$pkgdir; cp $t $WT/$pkgdir/; done; fi
  with=$(cd $WT && timeout 600 bash -c "$demo_cmd" >>$log 2>&1 && echo PASS || echo FAIL)
  git apply -R $pf >>$log 2>&1
  without=$(cd $WT && timeout 600 bash -c "$demo_cmd" >>$log 2>&1 && echo PASS || echo FAIL)
  echo "$id suite_with_change=$suite demo_with_change=$with demo_without_change=$without cmd=[$demo_cmd]" | tee -a $log
  cd /; git -C /repo worktree remove --force $WT
done
