#!/bin/bash
# usage: tools/seedtest.sh <seed-dir> <property> [tier]   — apply a seeded change to /repo, run a check, undo.
set -u
d=$(readlink -f "$1"); p=$2; tier=${3:-quick}
pf="$d/patch.diff"; [ -f "$d/patch.rebased.diff" ] && pf="$d/patch.rebased.diff"
cd /repo && git apply "$pf" || { echo "PATCH DOES NOT APPLY"; git -C /repo reset -q --hard HEAD; exit 3; }
cp /verif/evidence/$p.json /tmp/ev_$p.json 2>/dev/null
cd /verif && ./check $p --tier $tier 2>&1 | tail -3
rc=$?
cp /tmp/ev_$p.json /verif/evidence/$p.json 2>/dev/null
git -C /repo reset -q --hard HEAD
git -C /repo status --short | head -3
exit $rc
