#!/bin/bash
# usage: tools/seedtest.sh <seed-dir> <property> [tier]   — apply a seeded change to /repo, run a check, undo.
set -u
d=$1; p=$2; tier=${3:-quick}
cd /repo && git apply --3way "$d/patch.diff" 2>/dev/null || git -C /repo apply "$d/patch.diff" || { echo "PATCH DOES NOT APPLY"; git -C /repo checkout -- . ; exit 3; }
cp /verif/evidence/$p.json /tmp/ev_$p.json 2>/dev/null
cd /verif && ./check $p --tier $tier 2>&1 | tail -3
rc=$?
cp /tmp/ev_$p.json /verif/evidence/$p.json 2>/dev/null
git -C /repo reset -q --hard HEAD
git -C /repo status --short | head -3
exit $rc
